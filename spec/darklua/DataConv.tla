------------------------------ MODULE DataConv ------------------------------
(* C14 -- data files convert to Lua values equal to the data.                               *)
(*                                                                                          *)
(* Data values (what a JSON / JSON5 / YAML / TOML document MEANS), the relation            *)
(*   LuaEq(m, v, d): the value v of the LuaSem machine m equals the datum d,               *)
(* and the key-quoting rule of src/process/expression_serializer.rs (complete_table_entry  *)
(* + process/utils: is_valid_identifier), transcribed and checked against the reference     *)
(* lexer LuaLex: a key that is written bare must lex as ONE name token that is no keyword.  *)
(*                                                                                          *)
(* A datum is a uniform nested record                                                       *)
(*   [k, b, hi, lo, tx, s, ks, l]                                                           *)
(*   k  \in {"null","bool","num","str","arr","obj"}                                         *)
(*   b  : 0/1 (bool)                hi, lo : the binary64 words of a number                *)
(*   tx : the decimal spelling the document carries for a number ("" otherwise);           *)
(*        hi/lo = the double NEAREST to tx (IEEE754!FOfDecimal), or the literal inf/nan     *)
(*   s  : the bytes of a string (UTF-8 of the characters the document denotes)             *)
(*   ks : the member names of an object (byte strings, pairwise different), l : the members *)
(*        of an array / the member values of an object, in document order                   *)
EXTENDS LuaSem, Bytes, FiniteSets
Lx == INSTANCE LuaLex

\* ---------------------------------------------------------------- data values
DNull        == [k |-> "null", b |-> 0, hi |-> 0, lo |-> 0, tx |-> "", s |-> <<>>, ks |-> <<>>, l |-> <<>>]
DBool(x)     == [DNull EXCEPT !.k = "bool", !.b = IF x THEN 1 ELSE 0]
DWords(w, t) == [DNull EXCEPT !.k = "num", !.hi = w[1], !.lo = w[2], !.tx = t]
DNum(t)      == DWords(FOfDecimal(t), t)                \* the nearest double of the decimal text
DInf         == DWords(<<2146435072, 0>>, "inf")        \* 0x7ff00000 00000000
DNegInf      == DWords(<<-1048576, 0>>, "-inf")         \* 0xfff00000 00000000
DNaN         == DWords(<<2146959360, 0>>, "nan")        \* 0x7ff80000 00000000 (canonical)
DStr(bytes)  == [DNull EXCEPT !.k = "str", !.s = bytes]
DArr(items)  == [DNull EXCEPT !.k = "arr", !.l = items]
DObj(keys, vals) == [DNull EXCEPT !.k = "obj", !.ks = keys, !.l = vals]

RECURSIVE DWellFormed(_), DDepth(_)
DWellFormed(d) ==
  /\ d.k \in {"null", "bool", "num", "str", "arr", "obj"}
  /\ d.k = "obj" => /\ Len(d.ks) = Len(d.l)
                    /\ \A i, j \in 1..Len(d.ks) : i # j => d.ks[i] # d.ks[j]
  /\ d.k \in {"arr", "obj"} => \A i \in 1..Len(d.l) : DWellFormed(d.l[i])
DDepth(d) == IF d.k \notin {"arr", "obj"} THEN 0
             ELSE LET ds == {DDepth(d.l[i]) : i \in 1..Len(d.l)} \cup {0} IN 1 + (CHOOSE x \in ds : \A y \in ds : y <= x)

\* ---------------------------------------------------------------- equality of a Lua value and a datum
\* Numbers: bit-for-bit the nearest double, with two documented relaxations:
\*  * sign of zero: -0 and +0 are the same Lua value for `==` and as table keys; Lua 5.1's constant table merges
\*    them inside one function (`return 0, -0` prints `0 0` or `-0 -0` depending on order) and an integer `-0` of
\*    YAML/TOML/JSON5 has no sign at all, so a sign-of-zero difference is counted (NegZeroLost) but not a mismatch;
\*  * NaN: any NaN equals the NaN datum (payload and sign are not observable in Lua).
NumEq(w, d) == IF FIsNaN(<<d.hi, d.lo>>) THEN FIsNaN(w) ELSE FEq(w, <<d.hi, d.lo>>) /\ ~FIsNaN(w)
NumBitEq(w, d) == IF FIsNaN(<<d.hi, d.lo>>) THEN FIsNaN(w) ELSE w = <<d.hi, d.lo>>

LiveKeys(t) == {t.ks[i] : i \in {j \in 1..Len(t.ks) : t.vs[j].t # "nil"}}
RECURSIVE LuaEq(_, _, _)
LuaEq(m, v, d) ==
  CASE d.k = "null" -> v.t = "nil"
    [] d.k = "bool" -> v.t = "bool" /\ v.hi = d.b
    [] d.k = "num"  -> v.t = "num" /\ NumEq(<<v.hi, v.lo>>, d)
    [] d.k = "str"  -> v.t = "str" /\ v.s = StrOfBytes(d.s)                       \* byte-identical
    [] d.k = "arr"  -> /\ v.t = "tab"
                       /\ LET t == m.heap[v.hi] IN
                          /\ t.mt = 0
                          \* element i sits at key i; a null member is simply absent and shifts nothing
                          /\ LiveKeys(t) = {NumI(i) : i \in {j \in 1..Len(d.l) : d.l[j].k # "null"}}
                          /\ \A i \in 1..Len(d.l) : LuaEq(m, RawGetT(t, NumI(i)), d.l[i])
    [] d.k = "obj"  -> /\ v.t = "tab"
                       /\ LET t == m.heap[v.hi] IN
                          /\ t.mt = 0
                          \* exactly the same string keys (members whose value is null are absent)
                          /\ LiveKeys(t) = {Str(StrOfBytes(d.ks[i])) : i \in {j \in 1..Len(d.l) : d.l[j].k # "null"}}
                          /\ \A i \in 1..Len(d.l) : LuaEq(m, RawGetT(t, Str(StrOfBytes(d.ks[i]))), d.l[i])
    [] OTHER -> FALSE

\* where the first mismatch is (for the replay file): a path of keys / indices, "" when equal
RECURSIVE Mismatch(_, _, _, _)
Mismatch(m, v, d, path) ==
  IF LuaEq(m, v, d) THEN ""
  ELSE IF d.k \in {"arr", "obj"} /\ v.t = "tab" THEN
         LET t == m.heap[v.hi] IN
         LET bad == {i \in 1..Len(d.l) : ~LuaEq(m, RawGetT(t, IF d.k = "arr" THEN NumI(i) ELSE Str(StrOfBytes(d.ks[i]))), d.l[i])} IN
         IF bad = {} THEN path \o ":keyset"
         ELSE LET i == CHOOSE x \in bad : \A y \in bad : x <= y IN
              Mismatch(m, RawGetT(t, IF d.k = "arr" THEN NumI(i) ELSE Str(StrOfBytes(d.ks[i]))), d.l[i], path \o "/" \o IntStr(i))
  ELSE path \o ":" \o d.k \o "~" \o v.t

\* a -0 datum delivered as +0 or the reverse (counted, see NumEq)
RECURSIVE NegZeroLost(_, _, _)
NegZeroLost(m, v, d) ==
  CASE d.k = "num" -> v.t = "num" /\ NumEq(<<v.hi, v.lo>>, d) /\ ~NumBitEq(<<v.hi, v.lo>>, d)
    [] d.k \in {"arr", "obj"} /\ v.t = "tab" ->
         \E i \in 1..Len(d.l) : NegZeroLost(m, RawGetT(m.heap[v.hi], IF d.k = "arr" THEN NumI(i) ELSE Str(StrOfBytes(d.ks[i]))), d.l[i])
    [] OTHER -> FALSE

\* ---------------------------------------------------------------- the key-quoting rule (transcription)
\* process/utils/mod.rs: KEYWORDS / matches_any_keyword!  (the 21 reserved words of Lua 5.1; Luau adds none:
\* `continue`, `type`, `export`, `typeof` are contextual and legal field names)
DarkluaKeywords == { BytesOf("and"), BytesOf("break"), BytesOf("do"), BytesOf("else"), BytesOf("elseif"), BytesOf("end"),
                     BytesOf("false"), BytesOf("for"), BytesOf("function"), BytesOf("if"), BytesOf("in"), BytesOf("local"),
                     BytesOf("nil"), BytesOf("not"), BytesOf("or"), BytesOf("repeat"), BytesOf("return"), BytesOf("then"),
                     BytesOf("true"), BytesOf("until"), BytesOf("while") }
\* is_valid_identifier: non-empty, ASCII only, every char alphabetic or `_` or (a digit that is not first), no keyword
AsciiAlpha(c) == (c >= 65 /\ c <= 90) \/ (c >= 97 /\ c <= 122)
AsciiDigit(c) == c >= 48 /\ c <= 57
IdentifierLike(key) ==
  /\ Len(key) > 0
  /\ \A i \in 1..Len(key) : key[i] < 128
  /\ \A i \in 1..Len(key) : AsciiAlpha(key[i]) \/ key[i] = 95 \/ (AsciiDigit(key[i]) /\ i > 1)
  /\ key \notin DarkluaKeywords
\* complete_table_entry: identifier-like => `key = value`, else `["key"] = value`
WrittenBare(key) == IdentifierLike(key)

\* the reference lexer's verdict on `{key=1}`: five tokens  {  <name key>  =  1  }
LexesAsBareField(key, luau) ==
  LET r == Lx!Lex(<<123>> \o key \o <<61, 49, 125>>, luau) IN
  /\ r.ok
  /\ Len(r.toks) = 5
  /\ r.toks[2].k = "name" /\ r.toks[2].v = key
  /\ r.toks[1].v = <<123>> /\ r.toks[3].v = <<61>> /\ r.toks[4].k = "num" /\ r.toks[5].v = <<125>>
\* design theorem: a bare key is one Name token that is not a keyword, in both dialects
BareKeySound(key) == WrittenBare(key) => LexesAsBareField(key, TRUE) /\ LexesAsBareField(key, FALSE)
\* (economy, not required by the property: every key the lexer would accept bare is written bare)
BareKeyComplete(key) == (LexesAsBareField(key, TRUE) /\ LexesAsBareField(key, FALSE)) => WrittenBare(key)
=============================================================================
