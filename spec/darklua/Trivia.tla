------------------------------- MODULE Trivia -------------------------------
(* Source text as  triv_0 tok_1 triv_1 tok_2 ... tok_n triv_n : every gap between two   *)
(* code tokens (and the gaps before the first / after the last token) holds a trivia    *)
(* string.  The module enumerates, for template programs covering every token kind,     *)
(* all placements of one trivia, of two trivia in the same gap, and of two trivia in    *)
(* adjacent gaps -- the quantifier "comments and blank lines in every trivia position"  *)
(* of C03 / C18 -- and renders each placement to text.                                  *)
(* Partition theorem (what "nothing dropped, duplicated or reordered" means): the text  *)
(* is the concatenation of its gaps and tokens in order; Rendered below IS that         *)
(* concatenation, so a generator that reproduces every gap and token reproduces it.     *)
EXTENDS Integers, Sequences, TLC

\* ---- templates (token sequences); T1: Lua 5.1 statements, T2: expressions, T3: Luau extensions
T1 == << "local", "a", ",", "b", "=", "1", ",", "'x'", ";",
         "local", "function", "f", "(", "x", ",", "...", ")", "return", "x", ",", "...", "end",
         "t", "=", "{", "1", ",", "k", "=", "2", ";", "[", "3", "]", "=", "4", ",", "}",
         "for", "i", "=", "1", ",", "2", ",", "1", "do", "f", "(", "i", ")", "end",
         "for", "k", ",", "v", "in", "pairs", "(", "t", ")", "do", "end",
         "while", "a", "<", "b", "do", "break", "end",
         "repeat", "a", "=", "a", "+", "1", "until", "a", ">=", "2",
         "if", "a", "then", "b", "=", "-", "a", "elseif", "b", "then", "else", "end",
         "do", "end",
         "t", ".", "x", ":", "m", "(", "\"a\"", ")",
         "f", "'s'", "f", "{", "}",
         "function", "t", ".", "g", ":", "h", "(", ")", "end",
         "a", "=", "#", "t", "..", "[[x]]",
         "return", "a", ",", "(", "b", ")" >>
T2 == << "return", "not", "a", "==", "b", ",", "a", "and", "b", "or", "c", ",", "a", "^", "-", "b", ",",
         "(", "a", ")", "(", "b", ")", "[", "c", "]", ".", "d", ",", "(", "(", "a", ")", ")", ",", "(", "(", "(", "a", ")", ")", ")", "(", ")", ",",
         "0x1F", "+", "1e3", "*", ".5", "/", "2", "%", "3", ",", "a", "~=", "b", ",", "a", "<=", "b", ",", "a", ">", "b", ",",
         "function", "(", ")", "end", ",", "{", "[", "'k'", "]", "=", "v", "}", ",",
         "nil", ",", "true", ",", "false", ",", "'\\n\\065'", ",", "[==[ ]] ]==]", ",", "..." >>
T3 == << "local", "x", "=", "1", "x", "+=", "1", "x", "..=", "'s'",
         "for", "i", "=", "1", ",", "2", "do", "if", "x", "then", "continue", "end", "end",
         "local", "s", "=", "`a{", "x", "}b`",
         "local", "u", "=", "`{", "{", "x", "}", "}`",       \* a value that starts with a table: `{{` is not allowed
         "local", "y", "=", "if", "x", "then", "1", "elseif", "s", "then", "2", "else", "3",
         "return", "x", "//", "0b11", ",", "1_000" >>
\* T4: separators after LAST statements (`return 1;`, `break;`), operands touching `..`, nested closing brackets
T4 == << "do", "return", "1", ";", "end", "while", "a", "do", "break", ";", "end",
         "a", "=", "b", "..", "2", "..", "c", "..", "'s'", "a", "=", "0xA", "..", "a", "..", "0xf", "..", "1_0", "a", "=", "t", "[", "t", "[", "1", "]", "]", ";",
         "if", "a", "then", "return", ";", "end",
         "a", "=", "1e999", "(", "f", ")", "(", "a", ")",       \* a numeral ends its statement: `(f)(a)` is the next one
         "return", "a", ",", "b", ";" >>
\* T5 / T6: Luau TYPE syntax.  "<T" and "T>" are not tokens: they bracket the tokens of one type annotation / type
\* expression (C03's weaker clause: inside these regions only parentheses and spacing may differ; everywhere else the
\* byte-for-byte clause applies).  Unmark removes them and returns the token-index spans.
T5raw == << "local", "x", ":", "<T", "number", "T>", "=", "1",
            "local", "y", ":", "<T", "{", "a", ":", "number", ",", "[", "string", "]", ":", "boolean", "}", "?", "T>", "=", "nil",
            "local", "function", "f", "<", "T", ">", "(", "a", ":", "<T", "T", "T>", ",", "...", ":", "<T", "number", "T>", ")", ":", "<T", "(", "T", ",", "number", ")", "T>",
              "return", "a", "::", "<T", "any", "T>", ",", "1", "end",
            "type", "A", "=", "<T", "{", "x", ":", "number", ",", "y", ":", "string", "?", "}", "T>",
            "export", "type", "B", "<", "T", ">", "=", "<T", "(", "T", ")", "->", "(", "T", ",", "...", "any", ")", "T>",
            "for", "i", ":", "<T", "number", "T>", "=", "1", ",", "2", "do", "end",
            "for", "k", ":", "<T", "string", "T>", ",", "v", ":", "<T", "any", "T>", "in", "pairs", "(", "y", ")", "do", "end",
            "return", "x" >>
T6raw == << "type", "U", "=", "<T", "\"a\"", "|", "\"b\"", "|", "nil", "T>",
            "type", "I", "=", "<T", "A", "&", "{", "z", ":", "(", "number", ")", "}", "T>",
            "type", "F", "=", "<T", "(", "a", ":", "number", ",", "b", ":", "string", ")", "->", "(", ")", "T>",
            "type", "V", "=", "<T", "(", "number", ",", "...", "string", ")", "->", "(", "number", ",", "...", "any", ")", "T>",   \* variadic ARGUMENT type behind a comma
            "local", "g", "=", "function", "(", "a", ":", "<T", "number", "?", "T>", ")", ":", "<T", "...", "number", "T>", "return", "a", "end",
            "local", "z", "=", "(", "g", "::", "<T", "any", "T>", ")", "::", "<T", "M", ".", "B", "<", "number", ">", "T>",
            "local", "v", ":", "<T", "typeof", "(", "z", ")", "T>", "=", "z",
            "local", "w", ":", "<T", "(", "(", "number", ")", "->", "number", ")", "?", "T>", "=", "nil",
            "type", "G", "<", "K", ",", "V", "=", "<T", "K", "T>", ">", "=", "<T", "{", "[", "K", "]", ":", "V", "}", "T>",
            "type", "P", "<", "R", "...", ">", "=", "<T", "(", "R", "...", ")", "->", "(", "...", "any", ")", "T>",
            "local", "q", "=", "z", "::", "<T", "any", "T>", "(", "g", ")", "(", "q", ")",     \* a cast ends its statement: `(g)(q)` is the next one
            "q", "=", "q", "::", "<T", "{", "}", "T>", "(", "g", "::", "<T", "any", "T>", ")", "(", ")",
            \* a cast as the LEFT operand of binary operators (only `<` would need parentheses: `T <` opens type parameters) and
            \* under unary operators
            "q", "=", "q", "::", "<T", "number", "T>", "<=", "1", "==", "g", "::", "<T", "any", "T>", "and", "-", "q", "::", "<T", "number", "T>", "+", "1", ">=", "2",
              "or", "g", "::", "<T", "M", ".", "B", "T>", "~=", "nil",
            "q", "=", "not", "q", "::", "<T", "any", "T>", "..", "\"s\"", ">", "\"a\"",
            "return", "v", ",", "w" >>
RECURSIVE Unmark(_, _, _, _, _)
Unmark(raw, k, toks, open, spans) ==
  IF k > Len(raw) THEN [toks |-> toks, spans |-> spans]
  ELSE IF raw[k] = "<T" THEN Unmark(raw, k + 1, toks, Len(toks) + 1, spans)
  ELSE IF raw[k] = "T>" THEN Unmark(raw, k + 1, toks, 0, spans \cup {<<open, Len(toks)>>})
  ELSE Unmark(raw, k + 1, Append(toks, raw[k]), open, spans)
U5 == Unmark(T5raw, 1, <<>>, 0, {})
U6 == Unmark(T6raw, 1, <<>>, 0, {})
T5 == U5.toks
T6 == U6.toks
\* T7: tokens that SPAN several lines (the generator knows one line per token): quoted and interpolated strings continued with
\* backslash + line break or \z + line break, long strings and their neighbours
T7 == << "local", "s", "=", "'a\\\nb'", ",", "\"c\\z\n   d\"",
         "local", "i", "=", "`p\\\nq{", "s", "}r\\z\n  t{", "i", "}u`",
         "local", "l", "=", "[[\nx\ny]]", "..", "[==[\n]]\n]==]", "f", "[[\nz]]", "f", "'\\\n'",
         "return", "s", ",", "i", ",", "l" >>
Templates == << T1, T2, T3, T4, T5, T6, T7 >>
\* token-index spans <<lo, hi>> of the type regions of each template
TypeSpans == << {}, {}, {}, {}, U5.spans, U6.spans, {} >>

\* ---- endings: every statement kind as the LAST statement of a file, with and without a closing `;` -- where a rule that
\* writes at the end of the file (append_text_comment with location `end`) has to find the last token
EndingStmts == <<
  "a = 1", "a, b = b, a", "a.b = f()", "local a", "local a = f()", "local a, b = 1", "f()", "f 's'", "f{}", "f[[x]]", "a.b:c()", "a.b:c 's'",
  "do end", "while a do end", "repeat until a", "repeat until f()", "if a then end", "if a then else end", "for i = 1, 2 do end", "for k in f do end",
  "function f() end", "function a.b:c() end", "local function f() end", "return", "return a", "return a, b", "return f()", "return function() end", "return {}",
  "return 'x'", "return [[x]]", "return -a", "return not a", "return a.b", "return a[1]", "return (a)", "return ...", "return nil", "return true", "return 1",
  "return a .. b", "return a + 1", "return #a", "while a do break end",
  \* Luau
  "local a: number", "local a: number = 1", "local a, b: string", "local a: { b: number }", "local a: () -> ()", "local a: T?", "local a: T<U>", "local a: typeof(b)",
  "return `a{1}`", "return a :: number", "return if a then 1 else 2", "a += 1", "a ..= 's'", "while a do continue end",
  "type T = number", "type T = { a: number }", "type T = () -> ()", "type T = A | B", "type T = A & B", "type T = A?", "type T = typeof(a)", "type T = 'x'", "type T = true",
  "type T = { number }", "type T = M.N", "type T = M.N<U>", "type T<A...> = (A...) -> A...", "type T = (...number) -> ...string", "export type T = nil",
  "local function f(): number end", "local function f<T>(a: T, ...: T): ...T end", "local f = function(): () end" >>
Endings == [k \in 1..(2 * Len(EndingStmts)) |-> "local z = 1\n" \o EndingStmts[(k + 1) \div 2] \o (IF k % 2 = 0 THEN ";" ELSE "") \o "\n"]

\* ---- trivia kinds
\* (new kinds are appended: the indices of the first 14 are referred to by recorded replay files)
Kinds == << " ", "\t", "\n", "\r\n", "  \n\n ", "--c\n", " --c\n", "--[[c]]", "--[=[ ]] ]=]", "--[[c\nd]] ", "", "--KEEP\n", "--[[ KEEP ]]", "--!x\n",
            "--[==[c]==]", "--[===[ ]] ]=] ]==] ]===]", "--[==[c\nd]==] ", "--[=[c\nd]=]",
            "--keep\n", "-- Copyright x\n", "--[[ Keep\n--!y ]]" >>
NKinds == Len(Kinds)
EofKinds == << "", "\n", "--c", "--[[c]]", " ", "\n\n" >>     \* after the last token: also a line comment without a final newline

\* kind "" (tokens adjacent, no trivia) is only placed where the two lexemes cannot fuse
IsWord(s) == LET c == SubSeq(s, 1, 1) IN c \in {"a","b","c","d","e","f","g","h","i","k","l","m","n","o","p","r","s","t","u","v","w","x","y","_",
                                                  "0","1","2","3","4","5","6","7","8","9",".","'","\"","[","`","}"}
LastCh(s) == SubSeq(s, Len(s), Len(s))
FirstCh(s) == SubSeq(s, 1, 1)
Punct == {"(", ")", "{", "}", "]", ",", ";", "=", "#", "+", "*", "/", "%", "^", "<", ">"}
TightOK(t1, t2) == (LastCh(t1) \in Punct \/ FirstCh(t2) \in Punct) /\ ~(LastCh(t1) \in {"=", "<", ">", "/"} /\ FirstCh(t2) \in {"=", "/"})
                   /\ ~(LastCh(t1) = "]" /\ FirstCh(t2) = "]") /\ ~(LastCh(t1) = "[" /\ FirstCh(t2) = "[") /\ ~(LastCh(t1) = "." \/ FirstCh(t2) = ".")
                   /\ ~(LastCh(t1) = "-" \/ FirstCh(t2) = "-")
\* `..` may touch a neighbour that is not a numeral and does not itself start / end with a dot: `a..b`, `b..2`, `..'s'`
Digits == {"0","1","2","3","4","5","6","7","8","9"}
DotOK(t1, t2) == \/ (t2 = ".." /\ LastCh(t1) \notin Digits \cup {"."})
                 \/ (t1 = ".." /\ FirstCh(t2) # ".")
Tight(t1, t2) == TightOK(t1, t2) \/ DotOK(t1, t2)

\* gaps: function from 0..n to trivia strings; default " " between tokens, "" at both ends
RECURSIVE Join(_, _, _)
Join(toks, gap, i) == IF i > Len(toks) THEN "" ELSE toks[i] \o gap[i] \o Join(toks, gap, i + 1)
Rendered(toks, gap) == gap[0] \o Join(toks, gap, 1)
BaseGap(toks) == [i \in 0..Len(toks) |-> IF i = 0 \/ i = Len(toks) THEN "" ELSE " "]
\* a trivia placed in gap i: between tokens it must keep them apart unless they may touch
Place(toks, gap, i, tr) ==
  LET inner == i > 0 /\ i < Len(toks) IN
  LET sepNeeded == inner /\ ~Tight(toks[i], toks[i + 1]) IN
  LET tr2 == IF tr = "" /\ sepNeeded THEN " "
             ELSE IF inner /\ Len(tr) >= 2 /\ SubSeq(tr, 1, 2) = "--" /\ LastCh(toks[i]) = "-" THEN " " \o tr     \* `- --c` not `---c`
             ELSE tr IN
  [gap EXCEPT ![i] = tr2]
\* ---- byte extent of the type regions of a rendered placement.  A region <<lo, hi>> reaches from the byte after token
\* lo - 1 to the byte before token hi + 1: the spacing between the annotation and its neighbours belongs to it.
RECURSIVE StartsAcc(_, _, _, _)
StartsAcc(toks, gap, i, acc) ==        \* acc[i] = 1-based offset of the first byte of token i (i = Len + 1: one past the last token)
  IF i > Len(toks) + 1 THEN acc
  ELSE StartsAcc(toks, gap, i + 1, Append(acc, IF i = 1 THEN Len(gap[0]) + 1 ELSE acc[i - 1] + Len(toks[i - 1]) + Len(gap[i - 1])))
RegionBytes(toks, gap, st, sp) ==
  LET from == st[sp[1] - 1] + Len(toks[sp[1] - 1]) IN    \* every region follows some token (`:`, `=`, `::`)
  LET to == IF sp[2] = Len(toks) THEN st[sp[2]] + Len(toks[sp[2]]) + Len(gap[sp[2]]) - 1 ELSE st[sp[2] + 1] - 1 IN
  << from, to >>
RECURSIVE SetToSeq(_)
SetToSeq(S) == IF S = {} THEN <<>> ELSE LET x == CHOOSE x \in S : \A y \in S : x[1] <= y[1] IN <<x>> \o SetToSeq(S \ {x})
TypeSpanSeqs == [tp \in 1..Len(Templates) |-> SetToSeq(TypeSpans[tp])]
ByteSpans(tp, toks, gap) ==
  LET S == TypeSpanSeqs[tp] IN
  IF Len(S) = 0 THEN <<>> ELSE LET st == StartsAcc(toks, gap, 1, <<>>) IN [k \in 1..Len(S) |-> RegionBytes(toks, gap, st, S[k])]
\* ---- CREATED endings: files whose LAST token belongs to a node that an EARLIER rule of the same configuration created
\* (a node without tokens: the comment / whitespace rules and append_text_comment then have to create its token).  <<pre, file>>:
\* `pre` = the earlier rules; the code tokens written for [pre, R] must be those written for [pre] alone, for every rule R of C18.
Inj(v) == "{ rule: 'inject_global_value', identifier: 'INJ', value: " \o v \o " }"
InjValues == << "false", "true", "null", "0.5", "-1", "'x'" >>
InjEndings == << "local a = INJ", "return INJ", "return a, INJ", "return not INJ", "a.b = INJ", "return (INJ)", "return {INJ}", "return f(INJ)",
                 "return a and INJ", "return if a then 1 else INJ", "return INJ :: any", "for i = 1, 2 do a = INJ break end", "a = INJ;",
                 "return function() return INJ end", "repeat until INJ", "return ..., INJ" >>
OtherCreated == <<
  <<"'compute_expression'", "return 1 == 2">>, <<"'compute_expression'", "return not true">>, <<"'compute_expression'", "return 1 + 1">>,
  <<"'compute_expression'", "return 'a' .. 'b'">>, <<"'compute_expression'", "local a = 2 > 1">>, <<"'compute_expression'", "return not nil, 2 ^ 2">>,
  <<"'compute_expression'", "return if true then nil else 1">>, <<"'compute_expression'", "a.b = 1 < 2;">>,
  <<"'convert_index_to_field'", "return a['b']">>, <<"'convert_index_to_field'", "a['b'] = a['c']">>, <<"'convert_index_to_field'", "return {['k'] = 1}">>,
  <<"'remove_nil_declaration'", "local a = nil">>, <<"'remove_compound_assignment'", "a += 1">>, <<"'remove_compound_assignment'", "a.b ..= 'x'">>,
  <<"'remove_types'", "return a :: any">>, <<"'remove_types'", "local a: number = 1">>, <<"'remove_types'", "type T = number">>,
  <<"'remove_if_expression'", "return if a then 1 else 2">>, <<"'remove_interpolated_string'", "return `a{b}`">>, <<"'remove_floor_division'", "return a // b">>,
  <<"'remove_floor_division'", "a //= 2">>, <<"'convert_luau_number'", "return 0b101">>, <<"'convert_luau_number'", "return 1_000">>,
  <<"'group_local_assignment'", "local a = 1 local b = 2">>, <<"'remove_method_call'", "return a:b()">>, <<"'convert_square_root_call'", "return math.sqrt(a)">>,
  <<"'remove_assertions'", "assert(a)">>, <<"'remove_assertions'", "return assert(a)">>, <<"'remove_debug_profiling'", "debug.profileend()">>,
  <<"'remove_continue'", "for i = 1, 2 do if a then continue end end">>, <<"'convert_local_function_to_assign'", "local function f() end">>,
  <<"'remove_unused_if_branch'", "if true then return 1 else return 2 end">>, <<"'remove_empty_do'", "a = 1 do end">>,
  <<"'remove_unused_variable'", "a = 1 local u = 2">>, <<"'remove_function_call_parens'", "return f('x')">>, <<"'remove_function_call_parens'", "f({})">> >>
CreatedEndings == [k \in 1..(Len(InjValues) * Len(InjEndings)) |->
                     << Inj(InjValues[((k - 1) % Len(InjValues)) + 1]), "local z = 1\n" \o InjEndings[((k - 1) \div Len(InjValues)) + 1] \o "\n" >>]
                  \o [k \in 1..Len(OtherCreated) |-> << OtherCreated[k][1], "local z = 1\n" \o OtherCreated[k][2] \o "\n" >>]

=============================================================================
