------------------------------- MODULE Trivia -------------------------------
(* Source text as  triv_0 tok_1 triv_1 tok_2 ... tok_n triv_n : every gap between two   *)
(* code tokens (and the gaps before the first / after the last token) holds a trivia    *)
(* string.  The module enumerates, for template programs covering every token kind,     *)
(* all placements of one trivia, of two trivia in the same gap, and of two trivia in    *)
(* adjacent gaps -- the quantifier "comments and blank lines in every trivia position"  *)
(* of C03 / C18 -- and renders each placement to text.                                  *)
(* Partition theorem (what "nothing dropped, duplicated or reordered" means): the text  *)
(* is the concatenation of its gaps and tokens in order; Rendered below IS that         *)
(* concatenation, so a generator that reproduces every gap and token reproduces it.     *)
EXTENDS Integers, Sequences, TLC

\* ---- templates (token sequences); T1: Lua 5.1 statements, T2: expressions, T3: Luau extensions
T1 == << "local", "a", ",", "b", "=", "1", ",", "'x'", ";",
         "local", "function", "f", "(", "x", ",", "...", ")", "return", "x", ",", "...", "end",
         "t", "=", "{", "1", ",", "k", "=", "2", ";", "[", "3", "]", "=", "4", ",", "}",
         "for", "i", "=", "1", ",", "2", ",", "1", "do", "f", "(", "i", ")", "end",
         "for", "k", ",", "v", "in", "pairs", "(", "t", ")", "do", "end",
         "while", "a", "<", "b", "do", "break", "end",
         "repeat", "a", "=", "a", "+", "1", "until", "a", ">=", "2",
         "if", "a", "then", "b", "=", "-", "a", "elseif", "b", "then", "else", "end",
         "do", "end",
         "t", ".", "x", ":", "m", "(", "\"a\"", ")",
         "f", "'s'", "f", "{", "}",
         "function", "t", ".", "g", ":", "h", "(", ")", "end",
         "a", "=", "#", "t", "..", "[[x]]",
         "return", "a", ",", "(", "b", ")" >>
T2 == << "return", "not", "a", "==", "b", ",", "a", "and", "b", "or", "c", ",", "a", "^", "-", "b", ",",
         "(", "a", ")", "(", "b", ")", "[", "c", "]", ".", "d", ",",
         "0x1F", "+", "1e3", "*", ".5", "/", "2", "%", "3", ",", "a", "~=", "b", ",", "a", "<=", "b", ",", "a", ">", "b", ",",
         "function", "(", ")", "end", ",", "{", "[", "'k'", "]", "=", "v", "}", ",",
         "nil", ",", "true", ",", "false", ",", "'\\n\\065'", ",", "[==[ ]] ]==]", ",", "..." >>
T3 == << "local", "x", "=", "1", "x", "+=", "1", "x", "..=", "'s'",
         "for", "i", "=", "1", ",", "2", "do", "if", "x", "then", "continue", "end", "end",
         "local", "s", "=", "`a{", "x", "}b`",
         "local", "y", "=", "if", "x", "then", "1", "elseif", "s", "then", "2", "else", "3",
         "return", "x", "//", "0b11", ",", "1_000" >>
\* T4: separators after LAST statements (`return 1;`, `break;`), operands touching `..`, nested closing brackets
T4 == << "do", "return", "1", ";", "end", "while", "a", "do", "break", ";", "end",
         "a", "=", "b", "..", "2", "..", "c", "..", "'s'", "a", "=", "t", "[", "t", "[", "1", "]", "]", ";",
         "if", "a", "then", "return", ";", "end", "return", "a", ",", "b", ";" >>
Templates == << T1, T2, T3, T4 >>

\* ---- trivia kinds
\* (new kinds are appended: the indices of the first 14 are referred to by recorded replay files)
Kinds == << " ", "\t", "\n", "\r\n", "  \n\n ", "--c\n", " --c\n", "--[[c]]", "--[=[ ]] ]=]", "--[[c\nd]] ", "", "--KEEP\n", "--[[ KEEP ]]", "--!x\n",
            "--[==[c]==]", "--[===[ ]] ]=] ]==] ]===]", "--[==[c\nd]==] ", "--[=[c\nd]=]" >>
NKinds == Len(Kinds)
EofKinds == << "", "\n", "--c", "--[[c]]", " ", "\n\n" >>     \* after the last token: also a line comment without a final newline

\* kind "" (tokens adjacent, no trivia) is only placed where the two lexemes cannot fuse
IsWord(s) == LET c == SubSeq(s, 1, 1) IN c \in {"a","b","c","d","e","f","g","h","i","k","l","m","n","o","p","r","s","t","u","v","w","x","y","_",
                                                  "0","1","2","3","4","5","6","7","8","9",".","'","\"","[","`","}"}
LastCh(s) == SubSeq(s, Len(s), Len(s))
FirstCh(s) == SubSeq(s, 1, 1)
Punct == {"(", ")", "{", "}", "]", ",", ";", "=", "#", "+", "*", "/", "%", "^", "<", ">"}
TightOK(t1, t2) == (LastCh(t1) \in Punct \/ FirstCh(t2) \in Punct) /\ ~(LastCh(t1) \in {"=", "<", ">", "/"} /\ FirstCh(t2) \in {"=", "/"})
                   /\ ~(LastCh(t1) = "]" /\ FirstCh(t2) = "]") /\ ~(LastCh(t1) = "[" /\ FirstCh(t2) = "[") /\ ~(LastCh(t1) = "." \/ FirstCh(t2) = ".")
                   /\ ~(LastCh(t1) = "-" \/ FirstCh(t2) = "-")
\* `..` may touch a neighbour that is not a numeral and does not itself start / end with a dot: `a..b`, `b..2`, `..'s'`
Digits == {"0","1","2","3","4","5","6","7","8","9"}
DotOK(t1, t2) == \/ (t2 = ".." /\ LastCh(t1) \notin Digits \cup {"."})
                 \/ (t1 = ".." /\ FirstCh(t2) # ".")
Tight(t1, t2) == TightOK(t1, t2) \/ DotOK(t1, t2)

\* gaps: function from 0..n to trivia strings; default " " between tokens, "" at both ends
RECURSIVE Join(_, _, _)
Join(toks, gap, i) == IF i > Len(toks) THEN "" ELSE toks[i] \o gap[i] \o Join(toks, gap, i + 1)
Rendered(toks, gap) == gap[0] \o Join(toks, gap, 1)
BaseGap(toks) == [i \in 0..Len(toks) |-> IF i = 0 \/ i = Len(toks) THEN "" ELSE " "]
\* a trivia placed in gap i: between tokens it must keep them apart unless they may touch
Place(toks, gap, i, tr) ==
  LET inner == i > 0 /\ i < Len(toks) IN
  LET sepNeeded == inner /\ ~Tight(toks[i], toks[i + 1]) IN
  LET tr2 == IF tr = "" /\ sepNeeded THEN " "
             ELSE IF inner /\ Len(tr) >= 2 /\ SubSeq(tr, 1, 2) = "--" /\ LastCh(toks[i]) = "-" THEN " " \o tr     \* `- --c` not `---c`
             ELSE tr IN
  [gap EXCEPT ![i] = tr2]
=============================================================================
