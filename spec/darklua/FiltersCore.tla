----------------------------- MODULE FiltersCore -----------------------------
(* The filter combination of darklua (Configuration::should_apply_rule, RuleMetadata::         *)
(* should_apply, Worker::apply_rules) over an ARBITRARY matching relation, and the design      *)
(* theorems of C20 with their TLAPS proofs: for any matching relation, any number of rules and *)
(* any pattern lists (unbounded) -- the theorems do not depend on the glob semantics at all,   *)
(* they follow from the SHAPE of the combination.  Filters.tla instantiates this module with   *)
(* the glob semantics (Matches); MC_Filters model-checks the same theorems on bounded          *)
(* instances and emits the cases that bind the model to the code.                              *)
(* Checked with: tlapm spec/darklua/FiltersCore.tla   (28 obligations)                         *)
EXTENDS Integers, Sequences

CONSTANT Matches(_, _)          \* any relation between a pattern and a path

ShouldApply(path, applyPatterns, skipPatterns) ==
  /\ (applyPatterns = <<>> \/ \E i \in DOMAIN applyPatterns : Matches(applyPatterns[i], path))
  /\ ~\E i \in DOMAIN skipPatterns : Matches(skipPatterns[i], path)

RuleRuns(cfg, k, path) ==
  cfg.rules[k].on /\ ShouldApply(path, cfg.apply, cfg.skip) /\ ShouldApply(path, cfg.rules[k].apply, cfg.rules[k].skip)
RanSet(cfg, path) == {k \in DOMAIN cfg.rules : RuleRuns(cfg, k, path)}
Delete(cfg, k) == [cfg EXCEPT !.rules[k].on = FALSE]
WithFilter(cfg, k, a, s) == [cfg EXCEPT !.rules[k].apply = a, !.rules[k].skip = s]

RuleRec == [on : BOOLEAN, apply : Seq(STRING), skip : Seq(STRING)]
IsCfg(cfg) == cfg \in [apply : Seq(STRING), skip : Seq(STRING), rules : Seq(RuleRec)]

THEOREM DeleteFacts ==
  ASSUME NEW cfg, IsCfg(cfg), NEW k \in DOMAIN cfg.rules
  PROVE  /\ DOMAIN Delete(cfg, k).rules = DOMAIN cfg.rules
         /\ Delete(cfg, k).apply = cfg.apply /\ Delete(cfg, k).skip = cfg.skip
         /\ Delete(cfg, k).rules[k].on = FALSE
         /\ \A j \in DOMAIN cfg.rules : j # k => Delete(cfg, k).rules[j] = cfg.rules[j]
  BY DEF Delete, IsCfg, RuleRec

THEOREM Thm_RuleFilterIsDeletion ==
  ASSUME NEW cfg, IsCfg(cfg), NEW k \in DOMAIN cfg.rules, NEW path, ~RuleRuns(cfg, k, path)
  PROVE  RanSet(cfg, path) = RanSet(Delete(cfg, k), path)
<1>1. \A j \in DOMAIN cfg.rules : j # k => (RuleRuns(Delete(cfg, k), j, path) <=> RuleRuns(cfg, j, path))
  BY DeleteFacts DEF RuleRuns
<1>2. ~RuleRuns(Delete(cfg, k), k, path)
  BY DeleteFacts DEF RuleRuns
<1>3. DOMAIN Delete(cfg, k).rules = DOMAIN cfg.rules
  BY DeleteFacts
<1> QED BY <1>1, <1>2, <1>3 DEF RanSet

THEOREM Thm_RuleRunsIsItsOwnEffect ==
  ASSUME NEW cfg, IsCfg(cfg), NEW k \in DOMAIN cfg.rules, NEW path, RuleRuns(cfg, k, path)
  PROVE  RanSet(Delete(cfg, k), path) = RanSet(cfg, path) \ {k}
<1>1. \A j \in DOMAIN cfg.rules : j # k => (RuleRuns(Delete(cfg, k), j, path) <=> RuleRuns(cfg, j, path))
  BY DeleteFacts DEF RuleRuns
<1>2. ~RuleRuns(Delete(cfg, k), k, path)
  BY DeleteFacts DEF RuleRuns
<1>3. DOMAIN Delete(cfg, k).rules = DOMAIN cfg.rules
  BY DeleteFacts
<1> QED BY <1>1, <1>2, <1>3 DEF RanSet

THEOREM Thm_FilterIsLocal ==
  ASSUME NEW cfg, IsCfg(cfg), NEW k \in DOMAIN cfg.rules, NEW a, NEW s, NEW path
  PROVE  RanSet(WithFilter(cfg, k, a, s), path) \ {k} = RanSet(cfg, path) \ {k}
<1> DEFINE c2 == WithFilter(cfg, k, a, s)
<1>1. /\ DOMAIN c2.rules = DOMAIN cfg.rules /\ c2.apply = cfg.apply /\ c2.skip = cfg.skip
      /\ \A j \in DOMAIN cfg.rules : j # k => c2.rules[j] = cfg.rules[j]
  BY DEF WithFilter, IsCfg, RuleRec
<1>2. \A j \in DOMAIN cfg.rules : j # k => (RuleRuns(c2, j, path) <=> RuleRuns(cfg, j, path))
  BY <1>1 DEF RuleRuns
<1> QED BY <1>1, <1>2 DEF RanSet

THEOREM Thm_RootExcludedUntouched ==
  ASSUME NEW cfg, NEW path, ~ShouldApply(path, cfg.apply, cfg.skip)
  PROVE  RanSet(cfg, path) = {}
  BY DEF RanSet, RuleRuns
=============================================================================
