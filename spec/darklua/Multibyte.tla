------------------------------ MODULE Multibyte ------------------------------
(* C12: "multi-byte characters at every token boundary".  The quantifier is made explicit: a   *)
(* catalogue of lexical templates (every comment form incl. the near-miss openers `--[`,       *)
(* `--[=`, `--[x[`; every string form; interpolated strings; numbers; multi-character          *)
(* operators) and EVERY insertion offset 0..Len(template) inside and around each of them.      *)
(* The marker `@` stands for the inserted character; the driver substitutes each multi-byte    *)
(* character (2-, 3- and 4-byte UTF-8 sequences, NBSP, BOM).  The template sits between a      *)
(* statement and a `return`, so a well-formed result is a complete program.                    *)
EXTENDS Integers, Sequences
Templates == <<
  "--[[ c ]]", "--[=[ c ]=]", "--[==[ a ]] b ]==]", "--[ x [1] ]", "--[x[", "--[ x[1]] see", "--[", "--[=", "--[=x[",
  "-- c [1]", "--", "--!strict", "--[[\nc\n]]", "---[[ c", "--[[ c ]]--[[ d ]]",
  "local s = \"s\"", "local s = 's\\z  t'", "local s = 'a\\\nb'", "local s = [[s]]", "local s = [=[ s ]] ]=]", "local s = \"\\u{48}\"",
  "local s = `a{1}b`", "local s = `{1}`", "local s = `\\{`",
  "local n = 0x1F", "local n = 1e5", "local n = 1_0", "local n = .5",
  "a = f[\"k\"]", "f['k'] = 1", "a = {[\"k\"] = 1}",       \* string keys that a rule may turn into field names
  "a.b = 1", "a:b()", "a ..= 'x'", "a //= 2", "a = a == a", "local v: number = 1", "f{ }", "f'x'", "a = ... "
>>
Pre  == "local a, f = 1, print "
Post == "\nreturn a\n"
Text(t, k) == Pre \o SubSeq(Templates[t], 1, k) \o "@" \o SubSeq(Templates[t], k + 1, Len(Templates[t])) \o Post
Offsets(t) == 0..Len(Templates[t])
\* the two edges of the FILE: the character is the very first / the very last thing of the text (a byte order mark at
\* offset 0 is what editors write; the token ranges of everything after it depend on how it is handled)
EdgeTexts(t) == << "@" \o Templates[t] \o Post, "@" \o Pre \o Templates[t] \o Post, "@\n" \o Templates[t] \o Post,
                   Pre \o Templates[t] \o Post \o "@", Pre \o Templates[t] \o "\n@" >>
\* ---- GLUE sites: two tokens that are only kept apart by trivia and would be read as ONE other token (a long bracket, a
\* comment, `..`, `...`, a longer number) if they touched.  The rules that delete trivia (remove_spaces, remove_comments) and
\* the rules that rebuild a node without its tokens leave the separation to the generator: whatever the separator was in
\* the source, the output must parse again.  <<left, right>>: the program is Pre \o left \o separator \o right \o Post.
GlueSites == <<
  <<"a = f[", "[[k]] ]">>, <<"a = f[", "[==[k]==] ]">>, <<"a = {[", "[[k]] ] = 1}">>, <<"f[", "[[k]] ] = 1">>, <<"f[", "[[k]] ] += 1">>,
  <<"a = f[ [[k]]", "]">>, <<"a = f[ f[1]", "]">>, <<"a = f[ [[k]]", "] ]]">>,
  <<"a = a -", "-a">>, <<"a = a -", "- -a">>, <<"a = -", "-a">>, <<"a = a -", "-1">>,
  <<"a = 0xA", ".. a">>, <<"a = 1_", ".. a">>, <<"a = 0xf", ".. 2">>, <<"a = 0B1_", "..a">>, <<"f(0xA,", "...)">>,      \* numbers that end with a letter / an underscore
  <<"a = a ..", ".5">>, <<"a = 1", ".. 2">>, <<"a = 1 ..", "2">>, <<"f(a ..", "...)">>, <<"a = a.", "b">>, <<"a = 1", ".b">>,
  <<"a = a <", "= a">>, <<"a = a >", "= a">>, <<"a = a =", "= a">>, <<"a = a ~", "= a">>, <<"a = a /", "/ a">>, <<"a ..", "= 'x'">>,
  <<"a = f", "[[x]]">>, <<"a = f", "'x'">>, <<"a = f", "{}">>, <<"a = a and", "a">>, <<"a = not", "a">>, <<"a = 1", "or a">>, <<"a = 0x1", "e">>,
  <<"local b: {[", "[[k]] ]: number} = a">>, <<"f(a ::", ":any)">>, <<"a = f :", ": any">> >>
GlueSeps == << " ", "\n", " --[[c]] ", "--[[c]]", " -- c\n", "\t", "" >>
GlueText(i, j) == Pre \o GlueSites[i][1] \o GlueSeps[j] \o GlueSites[i][2] \o Post

=============================================================================
