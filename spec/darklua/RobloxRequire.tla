---------------------------- MODULE RobloxRequire ----------------------------
(* The `roblox` TARGET mode of the rule convert_require  (supplementary to property C15:      *)
(* "conversions keep the target").                                                              *)
(*                                                                                              *)
(*   1. Roblox semantics of an instance path            EvalStep, EvalPath, EvalFrom            *)
(*   2. Rojo's file-system convention                   RojoTree  (files -> instance tree)      *)
(*   3. TRANSCRIPTION of darklua's two generators       GenFromRelativePath, GenFromSourcemap   *)
(*        src/rules/convert_require/roblox_require_mode.rs, rojo_sourcemap.rs, instance_path.rs,*)
(*        roblox_index_style.rs, src/rules/require/path_utils.rs, src/utils (normalize),        *)
(*        pathdiff::diff_paths -- one operator per function / branch, named after it            *)
(*   4. the theorem  KeepsTarget \/ <named limit>       Limit, Theorem                          *)
(*                                                                                              *)
(* A PATH is a sequence of segment strings (<<"src", "a.lua">>); "." and ".." are segments.     *)
(* An instance TREE is a sequence of nodes [name, cls, parent, files]: node ids are the         *)
(* positions 1..Len(tree), node 1 is the root (parent = 0), parent < own id, and the CHILD      *)
(* ORDER of a node is the increasing order of ids.  `files` is a sequence of paths.             *)
(* A STEP is a record [k, n], k \in {"parent","ffc","wfc","field","index","service"}.           *)
EXTENDS Integers, Sequences, FiniteSets, TLC

Last(p)  == p[Len(p)]
Front(p) == SubSeq(p, 1, Len(p) - 1)
MinOf(S) == CHOOSE x \in S : \A y \in S : x <= y
Reverse(s) == [i \in 1..Len(s) |-> s[Len(s) + 1 - i]]
RECURSIVE SetToSeqBy(_)     \* a finite set of integers as an increasing sequence
SetToSeqBy(S) == IF S = {} THEN <<>> ELSE LET m == MinOf(S) IN <<m>> \o SetToSeqBy(S \ {m})

EndsWith(s, suf) == Len(s) >= Len(suf) /\ SubSeq(s, Len(s) - Len(suf) + 1, Len(s)) = suf
DropLast(s, k)   == SubSeq(s, 1, Len(s) - k)

(* ========================================================================================== *)
(* 1. Roblox semantics                                                                          *)
(* ========================================================================================== *)
Nil == 0          \* the Lua value nil
Err == -1         \* an error is raised, the call never returns, or the value is not an Instance

\* Members of the class Instance (properties, methods, events; current and deprecated spellings of the API
\* reference).  In `x.n` / `x["n"]` a member ALWAYS wins over a child of the same name.
InstanceMembers == {
  "Archivable", "ClassName", "Name", "Parent", "archivable", "className", "RobloxLocked", "DataCost", "Capabilities",
  "Sandboxed", "UniqueId",
  "AddTag", "ClearAllChildren", "Clone", "Destroy", "FindFirstAncestor", "FindFirstAncestorOfClass",
  "FindFirstAncestorWhichIsA", "FindFirstChild", "FindFirstChildOfClass", "FindFirstChildWhichIsA",
  "FindFirstDescendant", "GetActor", "GetAttribute", "GetAttributeChangedSignal", "GetAttributes", "GetChildren",
  "GetDebugId", "GetDescendants", "GetFullName", "GetStyled", "GetTags", "HasTag", "IsAncestorOf", "IsDescendantOf",
  "IsA", "IsPropertyModified", "Remove", "RemoveTag", "ResetPropertyToDefault", "SetAttribute", "WaitForChild",
  "children", "clone", "destroy", "findFirstChild", "getChildren", "isA", "isDescendantOf", "remove",
  "AncestryChanged", "AttributeChanged", "Changed", "ChildAdded", "ChildRemoved", "DescendantAdded",
  "DescendantRemoving", "Destroying", "childAdded", "GetPropertyChangedSignal" }
\* members added by the classes that occur as the receiver of a child access in a Rojo tree
ClassMembers(cls) ==
  CASE cls = "ModuleScript" -> {"Source", "LinkedSource"}
    [] cls \in {"Script", "LocalScript"} -> {"Source", "LinkedSource", "Enabled", "Disabled", "RunContext"}
    [] OTHER -> {}
IsMember(cls, n) == n \in InstanceMembers \cup ClassMembers(cls)

ChildrenOf(tree, p) == {i \in 1..Len(tree) : tree[i].parent = p}
ChildrenSeq(tree, p) == SetToSeqBy(ChildrenOf(tree, p))
FirstChildNamed(tree, p, n) ==
  LET c == {i \in ChildrenOf(tree, p) : tree[i].name = n} IN IF c = {} THEN Nil ELSE MinOf(c)
FirstChildOfClass(tree, p, cls) ==
  LET c == {i \in ChildrenOf(tree, p) : tree[i].cls = cls} IN IF c = {} THEN Nil ELSE MinOf(c)

\* one step applied to the value v (an instance id, Nil or Err)
EvalStep(tree, v, st) ==
  IF v <= 0 THEN Err                                                    \* indexing nil raises
  ELSE CASE st.k = "parent"  -> tree[v].parent                         \* x.Parent  (nil at the root)
         [] st.k = "ffc"     -> FirstChildNamed(tree, v, st.n)         \* x:FindFirstChild(n): first child named n, or nil
         [] st.k = "wfc"     -> LET c == FirstChildNamed(tree, v, st.n) IN IF c = Nil THEN Err ELSE c   \* yields for ever
         [] st.k \in {"field", "index"} ->                              \* x.n / x["n"]
              IF st.n = "Parent" THEN tree[v].parent
              ELSE IF IsMember(tree[v].cls, st.n) THEN Err              \* a string, a boolean, a function, a signal ...
              ELSE LET c == FirstChildNamed(tree, v, st.n) IN IF c = Nil THEN Err ELSE c   \* "n is not a valid member"
         [] st.k = "service" ->                                         \* game:GetService(s): the child whose ClassName is s
              IF tree[v].cls # "DataModel" THEN Err
              ELSE LET c == FirstChildOfClass(tree, v, st.n) IN IF c = Nil THEN Err ELSE c
         [] OTHER -> Err

RECURSIVE EvalPath(_, _, _)
EvalPath(tree, start, steps) ==
  IF steps = <<>> THEN start ELSE EvalPath(tree, EvalStep(tree, start, steps[1]), Tail(steps))

\* `script` is the instance of the requiring file; `game` is the DataModel (only if the tree has one as its root)
StartOf(tree, scriptNode, root) ==
  IF root = "script" THEN scriptNode
  ELSE IF root = "game" /\ tree[1].cls = "DataModel" THEN 1 ELSE Err
EvalFrom(tree, scriptNode, root, steps) == EvalPath(tree, StartOf(tree, scriptNode, root), steps)

\* ---- tree vocabulary used by the limits
RECURSIVE AncestorsSelf(_, _)
AncestorsSelf(tree, v) == IF v = 0 THEN <<>> ELSE <<v>> \o AncestorsSelf(tree, tree[v].parent)      \* v, parent, ..., root
InSeq(s, x) == \E i \in 1..Len(s) : s[i] = x
Lca(tree, a, b) == LET aa == AncestorsSelf(tree, a) bb == AncestorsSelf(tree, b) IN
                   aa[MinOf({i \in 1..Len(aa) : InSeq(bb, aa[i])})]
\* the nodes that must be entered BY NAME on the way from `from` down to `t`: those strictly below `from`
DescentBelow(tree, from, t) ==
  LET tt == AncestorsSelf(tree, t) IN {tt[i] : i \in {j \in 1..Len(tt) : \A k \in 1..j : tt[k] # from}}
EarlierSiblingSameName(tree, x) ==
  \E y \in ChildrenOf(tree, tree[x].parent) : y < x /\ tree[y].name = tree[x].name
OtherSiblingSameName(tree, x) ==
  \E y \in ChildrenOf(tree, tree[x].parent) : y # x /\ tree[y].name = tree[x].name
NamedLikeMember(tree, x) == tree[x].parent # 0 /\ IsMember(tree[tree[x].parent].cls, tree[x].name)

OwnersOf(tree, file) == {i \in 1..Len(tree) : InSeq(tree[i].files, file)}

(* ========================================================================================== *)
(* 2. Rojo's file-system convention (rojo.space/docs/v7/sync-details)                           *)
(* ========================================================================================== *)
\* first matching suffix decides; cls "" = the file is not an instance of its own (metadata, nested project, model file)
RojoRules == <<
  [suf |-> ".server.luau", cls |-> "Script"],       [suf |-> ".server.lua", cls |-> "Script"],
  [suf |-> ".client.luau", cls |-> "LocalScript"],  [suf |-> ".client.lua", cls |-> "LocalScript"],
  [suf |-> ".luau", cls |-> "ModuleScript"],        [suf |-> ".lua", cls |-> "ModuleScript"],
  [suf |-> ".meta.json", cls |-> ""], [suf |-> ".project.json", cls |-> ""], [suf |-> ".model.json", cls |-> ""],
  [suf |-> ".json", cls |-> "ModuleScript"],        [suf |-> ".toml", cls |-> "ModuleScript"],
  [suf |-> ".txt", cls |-> "StringValue"],          [suf |-> ".csv", cls |-> "LocalizationTable"] >>
RojoRule(name) == LET m == {i \in 1..Len(RojoRules) : EndsWith(name, RojoRules[i].suf)} IN
                  IF m = {} THEN [suf |-> "", cls |-> ""] ELSE RojoRules[MinOf(m)]
RojoName(name) == DropLast(name, Len(RojoRule(name).suf))
RojoClass(name) == RojoRule(name).cls
\* a directory holding one of these IS that script (named after the directory); first existing one in this order
InitPriority == <<"init.luau", "init.lua", "init.server.luau", "init.server.lua", "init.client.luau", "init.client.lua">>
IsInitName(name) == InSeq(InitPriority, name)
ChosenInit(files, dir) ==          \* the path of the init file that decides the class of `dir`, or <<>>
  LET m == {i \in 1..Len(InitPriority) : dir \o <<InitPriority[i]>> \in files} IN
  IF m = {} THEN <<>> ELSE dir \o <<InitPriority[MinOf(m)]>>

\* directory listing order: `order` is the sequence of all segment names in listing order (an ASSUMPTION: Rojo does
\* not document the child order; the limit SiblingSameName below does not depend on it)
Rank(order, name) == LET m == {i \in 1..Len(order) : order[i] = name} IN IF m = {} THEN 0 ELSE MinOf(m)
RECURSIVE PathLeq(_, _, _)
PathLeq(order, p, q) ==            \* lexicographic, a prefix first: this is the pre-order of the directory tree
  IF p = <<>> THEN TRUE ELSE IF q = <<>> THEN FALSE
  ELSE IF p[1] = q[1] THEN PathLeq(order, Tail(p), Tail(q))
  ELSE Rank(order, p[1]) < Rank(order, q[1])
RECURSIVE SortPaths(_, _)
SortPaths(order, S) == IF S = {} THEN <<>> ELSE
  LET m == CHOOSE x \in S : \A y \in S : PathLeq(order, x, y) IN <<m>> \o SortPaths(order, S \ {m})
IndexIn(s, x) == LET m == {i \in 1..Len(s) : s[i] = x} IN IF m = {} THEN 0 ELSE MinOf(m)

\* `files`: a SET of paths, all below one mounted directory (their first segment)
RojoEntries(files) ==
  UNION {{SubSeq(f, 1, k) : k \in 1..Len(f) - 1} : f \in files} \cup   \* directories
  {f \in files : RojoClass(Last(f)) # "" /\ ~IsInitName(Last(f))}     \* files that are instances of their own
RojoTree(files, order) ==
  LET es == SortPaths(order, RojoEntries(files)) IN
  [i \in 1..Len(es) |->
     LET e == es[i] IN
     LET par == IF Len(e) = 1 THEN 0 ELSE IndexIn(es, Front(e)) IN
     IF e \in files
       THEN [name |-> RojoName(Last(e)), cls |-> RojoClass(Last(e)), parent |-> par, files |-> <<e>>]
       ELSE LET init == ChosenInit(files, e) IN
            [name |-> Last(e), cls |-> IF init = <<>> THEN "Folder" ELSE RojoClass(Last(init)), parent |-> par,
             files |-> IF init = <<>> THEN <<>> ELSE <<init>>]]

(* ========================================================================================== *)
(* 3. Transcription of darklua                                                                  *)
(* ========================================================================================== *)
NoPath == <<"!none">>

\* std::path::Path::components(): interior "." segments disappear, a leading one stays
Components(p) == IF p = <<>> THEN <<>> ELSE <<p[1]>> \o SelectSeq(Tail(p), LAMBDA s : s # ".")

\* utils::normalize (normalize_path: keepCur = FALSE, normalize_path_with_current_dir: keepCur = TRUE)
RECURSIVE NormAcc(_, _, _, _)
NormAcc(p, i, acc, keepCur) ==
  IF i > Len(p) THEN acc
  ELSE LET c == p[i] IN
       IF c = "." THEN NormAcc(p, i + 1, IF keepCur /\ acc = <<>> THEN <<".">> ELSE acc, keepCur)
       ELSE IF c = ".." THEN
            IF acc = <<>> THEN NormAcc(p, i + 1, <<"..">>, keepCur)
            ELSE IF Last(acc) = "." THEN NormAcc(p, i + 1, Front(acc) \o <<"..">>, keepCur)
            ELSE IF Last(acc) # ".." THEN NormAcc(p, i + 1, Front(acc), keepCur)
            ELSE NormAcc(p, i + 1, acc \o <<"..">>, keepCur)
       ELSE NormAcc(p, i + 1, acc \o <<c>>, keepCur)
Normalize(p, keepCur) == IF p = <<>> THEN <<>> ELSE LET r == NormAcc(p, 1, <<>>, keepCur) IN IF r = <<>> THEN <<".">> ELSE r

\* path_utils::get_relative_parent_path
ParentPath(p) == LET c == Components(p) IN
  IF c = <<>> THEN <<"..">> ELSE IF Len(c) = 1 THEN <<".">> ELSE Front(c)

\* pathdiff::diff_paths for relative paths (loop of the crate, arm by arm)
RECURSIVE DiffAcc(_, _, _, _, _)
DiffAcc(a, b, i, j, comps) ==
  IF i > Len(a) /\ j > Len(b) THEN comps                                           \* (None, None)
  ELSE IF j > Len(b) THEN comps \o SubSeq(a, i, Len(a))                            \* (Some(a), None)
  ELSE IF i > Len(a) THEN DiffAcc(a, b, i, j + 1, comps \o <<"..">>)               \* (None, _)
  ELSE IF comps = <<>> /\ a[i] = b[j] THEN DiffAcc(a, b, i + 1, j + 1, comps)      \* common prefix
  ELSE IF b[j] = "." THEN DiffAcc(a, b, i + 1, j + 1, comps \o <<a[i]>>)
  ELSE IF b[j] = ".." THEN NoPath
  ELSE comps \o <<"..">> \o [k \in 1..(Len(b) - j) |-> ".."] \o SubSeq(a, i, Len(a))
DiffPaths(path, base) == DiffAcc(Components(path), Components(base), 1, 1, <<>>)

\* path_utils::get_relative_path: NOTE it takes the PARENT of its second argument
GetRelativePath(requirePath, sourcePath, useCurrentDirPrefix) ==
  LET d == DiffPaths(requirePath, ParentPath(sourcePath)) IN
  IF d = NoPath THEN NoPath
  ELSE LET startsCur == d # <<>> /\ d[1] = "." startsPar == d # <<>> /\ d[1] = ".." IN
       Normalize(IF useCurrentDirPrefix /\ ~startsCur /\ ~startsPar THEN <<".">> \o d
                 ELSE IF ~useCurrentDirPrefix /\ startsCur THEN Tail(d) ELSE d, TRUE)

\* std::path::Path::file_stem
LastDot(name) == LET m == {i \in 1..Len(name) : SubSeq(name, i, i) = "."} IN IF m = {} THEN 0 ELSE CHOOSE i \in m : \A j \in m : j <= i
FileStem(name) == IF name = ".." THEN "" ELSE IF LastDot(name) <= 1 THEN name ELSE SubSeq(name, 1, LastDot(name) - 1)
\* PathRequireMode / LuauRequireMode ::is_module_folder_name with the folder name `init`
IsModuleFolderName(p) == p # <<>> /\ (Last(p) = "init" \/ FileStem(Last(p)) = "init")

\* process::utils::is_valid_identifier
Letters == {"a","b","c","d","e","f","g","h","i","j","k","l","m","n","o","p","q","r","s","t","u","v","w","x","y","z",
            "A","B","C","D","E","F","G","H","I","J","K","L","M","N","O","P","Q","R","S","T","U","V","W","X","Y","Z"}
Digits == {"0","1","2","3","4","5","6","7","8","9"}
Keywords == {"and","break","do","else","elseif","end","false","for","function","if","in","local","nil","not","or",
             "repeat","return","then","true","until","while"}
IsValidIdentifier(s) ==
  /\ s # ""
  /\ \A i \in 1..Len(s) : LET c == SubSeq(s, i, i) IN c \in Letters \/ c = "_" \/ (c \in Digits /\ i > 1)
  /\ s \notin Keywords

ParentStep == [k |-> "parent", n |-> ""]
\* RobloxIndexStyle::index -- strips `.lua` / `.luau` from EVERY name it is given
IndexStyle(style, childName) ==
  LET n == IF EndsWith(childName, ".lua") THEN DropLast(childName, 4)
           ELSE IF EndsWith(childName, ".luau") THEN DropLast(childName, 5) ELSE childName IN
  CASE style = "find_first_child" -> [k |-> "ffc", n |-> n]
    [] style = "wait_for_child"   -> [k |-> "wfc", n |-> n]
    [] OTHER -> IF IsValidIdentifier(n) THEN [k |-> "field", n |-> n] ELSE [k |-> "index", n |-> n]

Unchanged == [status |-> "unchanged", root |-> "", steps |-> <<>>]
Generated(root, steps) == [status |-> "ok", root |-> root, steps |-> steps]

\* ---- RobloxRequireMode::generate_require, branch WITHOUT a sourcemap
\* sourcePath / requirePath: as darklua holds them (relative to the working directory, normalised)
GenFromRelativePath(sourcePath, requirePath, style) ==
  LET rel == GetRelativePath(requirePath, sourcePath, TRUE) IN
  IF rel = NoPath THEN Unchanged                      \* Err(..) is logged as a warning, the call is left alone
  ELSE
  LET rc == Components(rel) IN
  LET take == Len(rc) - (IF IsModuleFolderName(rc) THEN 1 ELSE 0) IN       \* `./x/init.lua`: drop the last component
  LET comps == SubSeq(rc, 1, take) IN
  IF comps = <<>> THEN Unchanged
  ELSE
  LET srcIsInit == IsModuleFolderName(sourcePath) IN
  IF comps[1] \notin {".", ".."} THEN Unchanged       \* Component::Normal first: error
  ELSE
  LET first == IF comps[1] = "." THEN (IF srcIsInit THEN <<>> ELSE <<ParentStep>>)
               ELSE (IF srcIsInit THEN <<ParentStep>> ELSE <<ParentStep, ParentStep>>) IN
  LET Fold[i \in 1..Len(comps)] ==
        IF i = 1 THEN first
        ELSE IF comps[i] = "." THEN Fold[i - 1]
        ELSE IF comps[i] = ".." THEN Fold[i - 1] \o <<ParentStep>>
        ELSE Fold[i - 1] \o <<IndexStyle(style, comps[i])>> IN
  Generated("script", Fold[Len(comps)])

\* ---- rojo_sourcemap.rs
\* RojoSourcemapNodeIterator: a stack; children are pushed in order, so the LAST child is visited first
RECURSIVE IterFrom(_, _)
IterFrom(tree, stack) == IF stack = <<>> THEN <<>> ELSE
  LET v == Last(stack) IN <<v>> \o IterFrom(tree, Front(stack) \o ChildrenSeq(tree, v))
IterOrder(tree) == IterFrom(tree, <<1>>)
\* RojoSourcemap::find_node: the first node in iteration order owning the path
FindNode(tree, path) ==
  LET it == IterOrder(tree) IN
  LET m == {i \in 1..Len(it) : InSeq(tree[it[i]].files, path)} IN IF m = {} THEN 0 ELSE it[MinOf(m)]
\* RojoSourcemap::hierarchy: the node, its parent, ..., the root
Hierarchy(tree, v) == AncestorsSelf(tree, v)
\* the find_map of get_instance_path: first ancestor of `from` that is an ancestor of `target`
CommonAncestor(fa, ta) ==
  LET i0 == MinOf({i \in 1..Len(fa) : InSeq(ta, fa[i])}) IN
  [fromSplit |-> i0 - 1, targetSplit |-> IndexIn(ta, fa[i0]) - 1, id |-> fa[i0]]
\* RojoSourcemap::index_descendants: InstancePath::child(name) per id, each id must be a child of the previous node
RECURSIVE IndexDescendants(_, _, _)
IndexDescendants(tree, node, ids) ==        \* [ok, comps]; ok = FALSE is the `?` of node.get_child(id)
  IF ids = <<>> THEN [ok |-> TRUE, comps |-> <<>>]
  ELSE IF tree[ids[1]].parent # node THEN [ok |-> FALSE, comps |-> <<>>]
  ELSE LET rest == IndexDescendants(tree, ids[1], Tail(ids)) IN
       [ok |-> rest.ok, comps |-> <<[c |-> "child", n |-> tree[ids[1]].name]>> \o rest.comps]
ParentComp == [c |-> "parent", n |-> ""]
NoInstancePath == [root |-> "", comps |-> <<>>, none |-> TRUE]
\* the condition of the DataModel branch
UsesDataModelRoute(tree, fromNode, targetNode) ==
  LET fa == Hierarchy(tree, fromNode) ta == Hierarchy(tree, targetNode) ca == CommonAncestor(fa, ta) IN
  tree[1].cls = "DataModel" /\ ~(ca.fromSplit + ca.targetSplit <= Len(ta))
\* RojoSourcemap::get_instance_path
GetInstancePath(tree, fromFile, targetFile) ==
  LET fromNode == FindNode(tree, fromFile) targetNode == FindNode(tree, targetFile) IN
  IF fromNode = 0 \/ targetNode = 0 THEN NoInstancePath
  ELSE
  LET fa == Hierarchy(tree, fromNode) ta == Hierarchy(tree, targetNode) IN
  LET ca == CommonAncestor(fa, ta) IN
  LET descendants == SubSeq(ta, 1, ca.targetSplit) IN
  IF ~UsesDataModelRoute(tree, fromNode, targetNode)
    THEN LET d == IndexDescendants(tree, ca.id, Reverse(descendants)) IN
         IF ~d.ok THEN NoInstancePath
         ELSE [root |-> "script", comps |-> [k \in 1..ca.fromSplit |-> ParentComp] \o d.comps, none |-> FALSE]
    ELSE LET d == IndexDescendants(tree, 1, Tail(Reverse(ta))) IN
         IF ~d.ok THEN NoInstancePath ELSE [root |-> "game", comps |-> d.comps, none |-> FALSE]

\* instance_path.rs InstancePath::convert
Convert(ipath, style) ==
  LET useService == ipath.root = "game" /\ ipath.comps # <<>> /\ ipath.comps[1].c = "child" IN
  LET rest == IF ipath.root = "game" /\ ipath.comps # <<>> THEN Tail(ipath.comps) ELSE ipath.comps IN
  (IF useService THEN <<[k |-> "service", n |-> ipath.comps[1].n]>> ELSE <<>>) \o
  [i \in 1..Len(rest) |-> IF rest[i].c = "parent" THEN ParentStep ELSE IndexStyle(style, rest[i].n)]

\* RojoSourcemapNode::initialize: every file path becomes normalize_path(relative_to.join(file_path))
InitializeSourcemap(nodes, relativeTo) ==
  [i \in 1..Len(nodes) |-> [nodes[i] EXCEPT !.files = [k \in 1..Len(nodes[i].files) |-> Normalize(relativeTo \o nodes[i].files[k], FALSE)]]]

\* ---- RobloxRequireMode::initialize + generate_require, branch WITH a sourcemap
\*  location:  Context::project_location()   rojoSourcemap: the configured `rojo_sourcemap` path (relative to location)
GenFromSourcemap(nodes, location, rojoSourcemap, sourcePath, requirePath, style) ==
  LET relativeTo == ParentPath(location \o rojoSourcemap) IN                     \* initialize: joined with the location
  LET tree == InitializeSourcemap(nodes, relativeTo) IN
  \* generate_require: get_relative_path(require_path, get_relative_parent_path(sourcemap_path), false) with the
  \* sourcemap path NOT joined with the location -- and get_relative_path takes the parent once more
  LET rr == GetRelativePath(requirePath, ParentPath(rojoSourcemap), FALSE) IN
  IF rr = NoPath THEN Unchanged
  ELSE LET ip == GetInstancePath(tree, sourcePath, rr) IN
       IF ip.none THEN Unchanged ELSE Generated(ip.root, Convert(ip, style))

(* ========================================================================================== *)
(* 4. Cases, the theorem, the named limits                                                      *)
(* ========================================================================================== *)
(* A CASE: [fam, cur, style, files, src, tgt, sm, smpath, prefix, nodes, order]                 *)
(*   files: sequence of paths relative to the project directory; src, tgt among them            *)
(*   sm = 1: a sourcemap is configured at smpath (relative to the project directory); nodes is  *)
(*           its tree, file paths relative to the DIRECTORY OF THE SOURCEMAP                     *)
(*   sm = 0: the instance tree is RojoTree(files)                                               *)
ProjectDir == <<"proj">>
LocationOf(c) == (IF c.prefix = "./" THEN <<".">> ELSE <<>>) \o ProjectDir     \* Configuration::with_location
SeqToSet(s) == {s[i] : i \in 1..Len(s)}

\* the instance tree the case MEANS, file paths relative to the project directory (specification level)
TreeOf(c) ==
  IF c.sm = 1 THEN InitializeSourcemap(c.nodes, Front(Components(c.smpath)))
  ELSE RojoTree(SeqToSet(c.files), c.order)
\* a file is an instance through its own node, or (init file) through its directory: RojoTree records it in `files`
Owners(c, tree, file) == OwnersOf(tree, Normalize(file, FALSE))

\* what the transcription generates for the case
Gen(c) ==
  LET sourcePath == Normalize(ProjectDir \o c.src, FALSE)                        \* utils::normalize_path(current_path)
      requirePath == Normalize(ProjectDir \o c.tgt, TRUE) IN                     \* what find_require returned
  IF c.sm = 1 THEN GenFromSourcemap(c.nodes, LocationOf(c), c.smpath, sourcePath, requirePath, c.style)
  ELSE GenFromRelativePath(sourcePath, requirePath, c.style)

\* KeepsTarget for a generated path: from EVERY instance of the requiring file it denotes an instance of the target
KeepsTargetWith(c, tree, g) ==
  /\ g.status = "ok"
  /\ Owners(c, tree, c.src) # {}
  /\ \A s \in Owners(c, tree, c.src) : EvalFrom(tree, s, g.root, g.steps) \in Owners(c, tree, c.tgt)
KeepsTarget(c) == KeepsTargetWith(c, TreeOf(c), Gen(c))

(* ---- the named limits (Limit: the first one that applies; "" = none).  s, t: the unique instances of src and tgt.   *)
(*   NotInSourcemap / NoInstance  src or tgt is no instance of the tree: nothing to denote (darklua leaves the call)     *)
(*   AmbiguousOwner               src or tgt is owned by several nodes: no single path serves them all                  *)
(*   ShadowedBySibling            INHERENT to Roblox: no expression over Parent / FindFirstChild / WaitForChild / x.n    *)
(*                                reaches a child that has an earlier sibling of the same name                           *)
(*   SiblingSameName              the same without a sourcemap, where the child order is not defined                     *)
(*   ShadowedByMember             property style only; darklua documents it ("may collide with Instance properties");    *)
(*                                avoidable by falling back to FindFirstChild for such names                             *)
(*   ServiceRenamed,              limits of darklua's game:GetService shortcut, NOT of Roblox: the script-relative      *)
(*   ServiceRouteShadowed         path (or the node's className, which the sourcemap carries) would keep the target      *)
ShadowedBySibling(tree, s, t) ==            \* INHERENT: FindFirstChild / x.n only reach the FIRST child of a name
  \E x \in DescentBelow(tree, Lca(tree, s, t), t) : EarlierSiblingSameName(tree, x)
SiblingSameName(tree, s, t) ==              \* the same on a file system, where the child order is not defined
  \E x \in DescentBelow(tree, Lca(tree, s, t), t) : OtherSiblingSameName(tree, x)
ShadowedByMember(tree, s, t, style) ==      \* property style: a member of the parent's class wins over the child
  style = "property" /\ \E x \in DescentBelow(tree, Lca(tree, s, t), t) : NamedLikeMember(tree, x)
\* the two limits of the `game:GetService(..)` shortcut (taken when UsesDataModelRoute)
ServiceOf(tree, t) == LET tt == AncestorsSelf(tree, t) IN IF Len(tt) >= 2 THEN tt[Len(tt) - 1] ELSE 0
ServiceRenamed(tree, s, t) ==               \* GetService wants the ClassName, the sourcemap node gives its Name
  /\ UsesDataModelRoute(tree, s, t) /\ ServiceOf(tree, t) # 0
  /\ tree[ServiceOf(tree, t)].name # tree[ServiceOf(tree, t)].cls
ServiceRouteShadowed(tree, s, t, style) ==  \* the longer descent from the service meets a shadowed name
  /\ UsesDataModelRoute(tree, s, t) /\ ServiceOf(tree, t) # 0
  /\ \E x \in DescentBelow(tree, ServiceOf(tree, t), t) :
        EarlierSiblingSameName(tree, x) \/ (style = "property" /\ NamedLikeMember(tree, x))

Limit(c) ==
  LET tree == TreeOf(c) IN
  LET so == Owners(c, tree, c.src) to == Owners(c, tree, c.tgt) IN
  IF so = {} \/ to = {} THEN (IF c.sm = 1 THEN "NotInSourcemap" ELSE "NoInstance")
  ELSE IF Cardinality(so) > 1 \/ Cardinality(to) > 1 THEN "AmbiguousOwner"
  ELSE LET s == CHOOSE x \in so : TRUE t == CHOOSE x \in to : TRUE IN
       IF c.sm = 1 /\ ShadowedBySibling(tree, s, t) THEN "ShadowedBySibling"
       ELSE IF c.sm = 0 /\ SiblingSameName(tree, s, t) THEN "SiblingSameName"
       ELSE IF ShadowedByMember(tree, s, t, c.style) THEN "ShadowedByMember"
       ELSE IF c.sm = 1 /\ ServiceRenamed(tree, s, t) THEN "ServiceRenamed"
       ELSE IF c.sm = 1 /\ ServiceRouteShadowed(tree, s, t, c.style) THEN "ServiceRouteShadowed"
       ELSE ""

\* THE THEOREM (checked on the transcription by MC_Roblox, on every real observation by RobloxTrace)
Theorem(c) == KeepsTarget(c) \/ Limit(c) # ""

(* ========================================================================================== *)
(* 5. Diagnosis (for reports only, never a verdict): for a case that fails OUTSIDE the limits,  *)
(*    the conventions on which darklua and Rojo / Roblox are seen to differ                      *)
(* ========================================================================================== *)
StripLua(nme) == IF EndsWith(nme, ".lua") THEN DropLast(nme, 4) ELSE IF EndsWith(nme, ".luau") THEN DropLast(nme, 5) ELSE nme
Suspects(c) ==
  LET tree == TreeOf(c) IN
  LET so == Owners(c, tree, c.src) to == Owners(c, tree, c.tgt) IN
  LET descentNames == IF so = {} \/ to = {} THEN {}
                      ELSE LET s == MinOf(so) t == MinOf(to) IN
                           {tree[x].name : x \in DescentBelow(tree, Lca(tree, s, t), t) \cup
                                                 (IF c.sm = 1 /\ UsesDataModelRoute(tree, s, t) THEN DescentBelow(tree, 1, t) ELSE {})} IN
  SelectSeq(<<
    IF c.sm = 1 /\ Len(SelectSeq(c.smpath, LAMBDA x : x # ".")) > 2 THEN "sourcemap-deeper-than-one-directory" ELSE "",
    IF \E nme \in descentNames : StripLua(nme) # nme THEN "instance-name-ends-in-lua-extension" ELSE "",
    IF c.sm = 0 /\ IsInitName(Last(c.src)) /\ ~IsModuleFolderName(c.src) THEN "source-is-init-server-or-client-script" ELSE "",
    IF c.sm = 0 /\ ~IsInitName(Last(c.tgt)) /\ RojoClass(Last(c.tgt)) # "" /\ RojoName(Last(c.tgt)) # StripLua(Last(c.tgt))
      THEN "rojo-names-the-target-file-differently" ELSE "" >>, LAMBDA x : x # "")

\* `.Parent` written by the property style for a child named Parent is the same text as a parent step
CanonSteps(steps) == [i \in 1..Len(steps) |-> IF steps[i].k = "field" /\ steps[i].n = "Parent" THEN ParentStep ELSE steps[i]]
=============================================================================
