------------------------------- MODULE Config -------------------------------
(* The configuration data model of darklua (C19).                                                  *)
(*                                                                                                 *)
(* Three layers:                                                                                   *)
(*   text  t : the abstract syntax of a configuration FILE: ordered entries (key, type, value) at  *)
(*             the top level, in every rule object, in the bundle object and inside object values. *)
(*             It keeps everything a file can say: string vs object form, one pattern vs a list,   *)
(*             defaults spelt out, the `process` alias, duplicate / unknown / ill-typed entries.   *)
(*   cfg   c : what darklua keeps after reading (`Parse`): per rule its name, its non-default       *)
(*             parameters and its filters; generator; bundle settings; top-level filters.          *)
(*   Behaves : what decides how files are transformed (defaults filled in, patterns as sets).      *)
(*                                                                                                 *)
(* Parse      transcribes json5 + serde as configured in src/frontend/configuration.rs,            *)
(*            `impl Deserialize for Box<dyn Rule>` (src/rules/mod.rs) and every rule's `configure`.*)
(* Ser        transcribes `impl Serialize for dyn Rule`, every rule's `serialize_to_properties`    *)
(*            and the serde derives on Configuration / GeneratorParameters / BundleConfiguration.  *)
(* Places where the code departs from the property are NAMED FLAGS (all FALSE = ideal design;      *)
(* the defaults below = the code as it is today).                                                  *)
(*                                                                                                 *)
(* Theorems (model-checked on the bounded schema by MC_Config):                                    *)
(*   RoundTrip(t), SerInjective(t1, t2), Strict(t, t') for every single-field corruption t' of t.  *)
EXTENDS Integers, Sequences, FiniteSets, TLC, IOUtils

\* ------------------------------------------------------------------------------------------ deviation flags
Ideal == "CONFIG_IDEAL" \in DOMAIN IOEnv /\ IOEnv["CONFIG_IDEAL"] = "1"
Flag(n, today) == IF n \in DOMAIN IOEnv THEN IOEnv[n] = "1" ELSE (today /\ ~Ideal)
\* F-C19-a (repaired in 8d7c813): a rule without properties was written as its bare name even when it carried filters,
DevStringFormDropsFilters == Flag("DevStringFormDropsFilters", FALSE)
\* and skip_files was written only when apply_to_files was non-empty.
DevSkipGuardUsesApply     == Flag("DevSkipGuardUsesApply", FALSE)
\* F-C19-b (open): ConvertRequire::serialize_to_properties returns an empty map.
DevConvertRequireNoProps  == Flag("DevConvertRequireNoProps", TRUE)
\* F-C19-c (open): RemoveComments::serialize_to_properties returns an empty map (`except` is lost).
DevRemoveCommentsNoExcept == Flag("DevRemoveCommentsNoExcept", FALSE)
\* F-C19-d (open): RemoveAttribute::serialize_to_properties returns an empty map (`match` is lost).
DevRemoveAttributeNoMatch == Flag("DevRemoveAttributeNoMatch", FALSE)
\* F-C19-e (open): `generator: { name: 'retain_lines', <anything> }` -- serde ignores every other key of an
\* internally tagged UNIT variant, deny_unknown_fields notwithstanding.
DevUnitGeneratorIgnoresFields == Flag("DevUnitGeneratorIgnoresFields", TRUE)
\* F-C19-f (open): bundle.excludes are plain strings; an invalid glob is only warned about (and dropped) when bundling.
DevBundleExcludesUnchecked == Flag("DevBundleExcludesUnchecked", TRUE)

\* ------------------------------------------------------------------------------------------ values and entries
V(ty, v) == [ty |-> ty, v |-> v]
B(b)   == V("bool", <<b>>)             \* b \in {"true", "false"}
S(s)   == V("str", <<s>>)
N(lit) == V("num", <<lit>>)            \* the literal as written
L(seq) == V("strs", seq)               \* list of strings
Nul    == V("null", <<>>)
O(tri) == V("obj", tri)                \* flat (key, type, value) triples; inner types bool | str | num | null | map | strs
RulesVal  == V("RULES", <<>>)          \* the rule list (t.rules)
BundleVal == V("BUNDLE", <<>>)         \* the bundle object (t.bundle)
E(k, val) == [k |-> k, ty |-> val.ty, v |-> val.v]
ValOf(e) == V(e.ty, e.v)

Keys(es)   == {es[i].k : i \in DOMAIN es}
Has(es, k) == \E i \in DOMAIN es : es[i].k = k
Get(es, k) == ValOf(es[CHOOSE i \in DOMAIN es : es[i].k = k])
NoDup(es)  == \A i, j \in DOMAIN es : i # j => es[i].k # es[j].k
\* the entries of an object value
Tri(v) == [i \in 1..(Len(v) \div 3) |-> [k |-> v[3 * i - 2], ty |-> v[3 * i - 1], v |-> <<v[3 * i]>>]]
RECURSIVE UnTri(_)
UnTri(es) == IF es = <<>> THEN <<>> ELSE <<es[1].k, es[1].ty, IF es[1].v = <<>> THEN "" ELSE es[1].v[1]>> \o UnTri(Tail(es))

\* property sets: {<<key, value>>}
PKeys(P)   == {kv[1] : kv \in P}
PGet(P, k) == (CHOOSE kv \in P : kv[1] = k)[2]
RECURSIVE PropEntries(_)
PropEntries(P) == IF P = {} THEN <<>> ELSE LET x == CHOOSE y \in P : TRUE IN <<E(x[1], x[2])>> \o PropEntries(P \ {x})

\* ------------------------------------------------------------------------------------------ the schema (opaque strings: tables)
AllRules == {"append_text_comment", "compute_expression", "convert_function_to_assignment", "convert_index_to_field",
  "convert_local_function_to_assign", "convert_luau_number", "convert_require", "convert_square_root_call",
  "filter_after_early_return", "group_local_assignment", "inject_global_value", "make_assignment_local",
  "remove_assertions", "remove_attribute", "remove_comments", "remove_compound_assignment", "remove_debug_profiling",
  "remove_empty_do", "remove_floor_division", "remove_function_call_parens", "remove_interpolated_string",
  "remove_method_call", "remove_method_definition", "remove_nil_declaration", "remove_spaces", "remove_types",
  "remove_unused_if_branch", "remove_unused_variable", "remove_unused_while", "rename_variables",
  "remove_if_expression", "remove_continue"}
WithProps == {"append_text_comment", "inject_global_value", "remove_assertions", "remove_debug_profiling", "remove_attribute",
  "remove_comments", "remove_interpolated_string", "rename_variables", "convert_require"}
Parameterless == AllRules \ WithProps
DefaultRuleNames == <<"remove_spaces", "remove_comments", "compute_expression", "remove_unused_if_branch", "remove_unused_while",
  "filter_after_early_return", "remove_empty_do", "remove_unused_variable", "remove_method_definition",
  "convert_index_to_field", "remove_nil_declaration", "rename_variables", "remove_function_call_parens">>

\* strings are opaque to TLA+: validity of globs / regexes / identifiers / numerals is tabulated over the sample universe
InvalidGlobs   == {"[", "**a", "{a"}
InvalidRegexes == {"(", "[a"}
InvalidIdents  == {"not valid", "1x", "$lune", "$Roblox", "$defaults", "$", "end", ""}      \* incl. `$name` entries that are not one of the two groups
ValidGlob(p)  == p \notin InvalidGlobs
ValidRegex(p) == p \notin InvalidRegexes
ValidIdent(p) == p \notin InvalidIdents
Usizes  == {"0", "1", "2", "7", "20", "42", "80", "120"}       \* numerals that read as usize
NegInts == {"-1", "-7"}                                         \* read as f64 by RulePropertyValue (no signed variant)
NumNorm(lit) == IF lit \in NegInts THEN lit \o ".0" ELSE lit     \* how serde_json writes the value back
\* rename_variables writes its globals sorted (byte order); the universe of names used by the samples, in that order
GlobalsOrder == <<"$default", "$roblox", "c", "zz">>
SortGlobals(set) == SelectSeq(GlobalsOrder, LAMBDA x : x \in set)

\* ------------------------------------------------------------------------------------------ require modes
BadMode == [ok |-> FALSE, name |-> "", mfn |-> "", src |-> "", ulc |-> ""]
DefaultMode(n) == [ok |-> TRUE, name |-> n, mfn |-> "init", src |-> "", ulc |-> "true"]
ModeNames(rb) == IF rb THEN {"path", "luau", "roblox"} ELSE {"path", "luau"}
ModeKeys(n) == CASE n = "path" -> {"name", "module_folder_name", "sources", "use_luau_configuration"}
                 [] n = "luau" -> {"name", "aliases", "sources", "use_luau_configuration"}
                 [] OTHER -> {"name"}          \* roblox: rojo_sourcemap / indexing_style are outside the bounded schema
\* string_or_struct / RulePropertyValue::expect_require_mode: a mode name, or a tagged object with deny_unknown_fields
ModeOf(val, rb) ==
  IF val.ty = "str" THEN (IF val.v[1] \in ModeNames(rb) THEN DefaultMode(val.v[1]) ELSE BadMode)
  ELSE IF val.ty # "obj" THEN BadMode
  ELSE LET es == Tri(val.v) IN
    IF ~NoDup(es) \/ ~Has(es, "name") THEN BadMode
    ELSE LET nv == Get(es, "name") IN
      IF nv.ty # "str" \/ nv.v[1] \notin ModeNames(rb) THEN BadMode
      ELSE LET n == nv.v[1] IN
        IF ~(Keys(es) \subseteq ModeKeys(n)) THEN BadMode
        ELSE IF Has(es, "module_folder_name") /\ Get(es, "module_folder_name").ty # "str" THEN BadMode
        ELSE IF Has(es, "use_luau_configuration") /\ Get(es, "use_luau_configuration").ty # "bool" THEN BadMode
        ELSE IF Has(es, "sources") /\ Get(es, "sources").ty # "map" THEN BadMode
        ELSE IF Has(es, "aliases") /\ Get(es, "aliases").ty # "map" THEN BadMode
        ELSE IF Has(es, "aliases") /\ Has(es, "sources") THEN BadMode            \* `sources` is an alias of `aliases`: duplicate field
        ELSE [ok |-> TRUE, name |-> n,
              mfn |-> IF Has(es, "module_folder_name") THEN Get(es, "module_folder_name").v[1] ELSE "init",
              src |-> IF Has(es, "sources") THEN Get(es, "sources").v[1] ELSE IF Has(es, "aliases") THEN Get(es, "aliases").v[1] ELSE "",
              ulc |-> IF Has(es, "use_luau_configuration") THEN Get(es, "use_luau_configuration").v[1] ELSE "true"]
\* serde derive on PathRequireMode / LuauRequireMode inside the tagged enum
ModeTriples(m) ==
  <<"name", "str", m.name>>
  \o (IF m.name = "path" /\ m.mfn # "init" THEN <<"module_folder_name", "str", m.mfn>> ELSE <<>>)
  \o (IF m.name = "path" /\ m.src # "" THEN <<"sources", "map", m.src>> ELSE <<>>)
  \o (IF m.name \in {"path", "luau"} THEN <<"use_luau_configuration", "bool", m.ulc>> ELSE <<>>)
  \o (IF m.name = "luau" /\ m.src # "" THEN <<"aliases", "map", m.src>> ELSE <<>>)
\* impl From<&RequireMode> for RulePropertyValue: the bare name when the mode equals its default
ModeVal(m) == IF m = DefaultMode(m.name) THEN S(m.name) ELSE O(ModeTriples(m))

\* ------------------------------------------------------------------------------------------ rules: configure
\* Configure(name, P): RuleConfiguration::configure. Result: accepted?, and the rule's state written as its NON-DEFAULT
\* parameters (what an ideal serialize_to_properties returns).
NormVal(val) == IF val.ty = "num" THEN N(NumNorm(val.v[1])) ELSE val
IsTy(P, k, ty) == PGet(P, k).ty = ty
Configure(name, P) ==
  LET K == PKeys(P) IN
  CASE name \in Parameterless -> [ok |-> P = {}, props |-> {}]
  [] name = "append_text_comment" ->
      LET ok == /\ K \subseteq {"text", "file", "location"}
                /\ ("text" \in K) # ("file" \in K)                     \* one is required, both collide
                /\ ("text" \in K => IsTy(P, "text", "str"))
                /\ ("file" \in K => IsTy(P, "file", "str"))
                /\ ("location" \in K => IsTy(P, "location", "str") /\ PGet(P, "location").v[1] \in {"start", "end"})
      IN [ok |-> ok, props |-> IF ok THEN {kv \in P : kv[1] \in {"text", "file"} \/ kv = <<"location", S("end")>>} ELSE {}]
  [] name = "inject_global_value" ->
      LET ok == /\ K \subseteq {"identifier", "value", "default_value", "env", "env_json"}
                /\ "identifier" \in K /\ IsTy(P, "identifier", "str")
                /\ Cardinality(K \cap {"value", "env", "env_json"}) <= 1
                /\ ~({"value", "default_value"} \subseteq K)
                /\ ("env" \in K => IsTy(P, "env", "str"))
                /\ ("env_json" \in K => IsTy(P, "env_json", "str"))
                /\ \A k \in K \cap {"value", "default_value"} : PGet(P, k).ty \in {"bool", "str", "num", "strs", "null", "obj"}
      IN [ok |-> ok, props |-> IF ok THEN {<<kv[1], NormVal(kv[2])>> : kv \in P} ELSE {}]       \* original_properties, verbatim
  [] name \in {"remove_assertions", "remove_debug_profiling"} ->
      LET ok == K \subseteq {"preserve_arguments_side_effects"} /\ \A k \in K : IsTy(P, k, "bool")
      IN [ok |-> ok, props |-> IF ok THEN {kv \in P : kv[2] = B("false")} ELSE {}]
  [] name \in {"remove_attribute", "remove_comments"} ->
      LET key == IF name = "remove_comments" THEN "except" ELSE "match" IN
      LET ok == K \subseteq {key} /\ \A k \in K : IsTy(P, k, "strs") /\ \A i \in DOMAIN PGet(P, k).v : ValidRegex(PGet(P, k).v[i])
      IN [ok |-> ok, props |-> IF ok THEN {kv \in P : kv[2].v # <<>>} ELSE {}]
  [] name = "remove_interpolated_string" ->
      LET ok == K \subseteq {"strategy"} /\ \A k \in K : IsTy(P, k, "str") /\ PGet(P, k).v[1] \in {"string", "tostring"}
      IN [ok |-> ok, props |-> IF ok THEN {kv \in P : kv[2] = S("tostring")} ELSE {}]
  [] name = "rename_variables" ->
      LET ok == /\ K \subseteq {"globals", "include_functions", "detect_globals"}
                /\ ("globals" \in K => IsTy(P, "globals", "strs")
                                       /\ \A i \in DOMAIN PGet(P, "globals").v : LET g == PGet(P, "globals").v[i] IN g \in {"$default", "$roblox"} \/ ValidIdent(g))
                /\ ("include_functions" \in K => IsTy(P, "include_functions", "bool"))
                /\ ("detect_globals" \in K => IsTy(P, "detect_globals", "bool"))
      IN LET gs == (IF "globals" \in K THEN {PGet(P, "globals").v[i] : i \in DOMAIN PGet(P, "globals").v} ELSE {}) \cup {"$default"} IN
                   \* set_globals EXTENDS the default list: `$default` is always part of the set
         [ok |-> ok, props |-> IF ok THEN (IF gs # {"$default"} THEN {<<"globals", L(SortGlobals(gs))>>} ELSE {})
                                           \cup {kv \in P : kv = <<"include_functions", B("true")>> \/ kv = <<"detect_globals", B("false")>>}
                               ELSE {}]
  [] name = "convert_require" ->
      LET ok == K = {"current", "target"} /\ ModeOf(PGet(P, "current"), TRUE).ok /\ ModeOf(PGet(P, "target"), TRUE).ok
      IN [ok |-> ok, props |-> IF ok THEN {<<k, ModeVal(ModeOf(PGet(P, k), TRUE))>> : k \in K} ELSE {}]

Defaults(name) ==
  CASE name = "append_text_comment" -> {<<"location", S("start")>>}
  [] name \in {"remove_assertions", "remove_debug_profiling"} -> {<<"preserve_arguments_side_effects", B("true")>>}
  [] name = "remove_attribute" -> {<<"match", L(<<>>)>>}
  [] name = "remove_comments" -> {<<"except", L(<<>>)>>}
  [] name = "remove_interpolated_string" -> {<<"strategy", S("string")>>}
  [] name = "rename_variables" -> {<<"globals", L(<<"$default">>)>>, <<"include_functions", B("false")>>, <<"detect_globals", B("true")>>}
  [] OTHER -> {}
\* effective parameters: defaults filled in
Eff(name, props) ==
  props \cup {d \in Defaults(name) : d[1] \notin PKeys(props)}
        \cup (IF name = "inject_global_value" /\ PKeys(props) \cap {"value", "env", "env_json"} = {} THEN {<<"value", Nul>>} ELSE {})

\* ------------------------------------------------------------------------------------------ rules: read and write
NoRule == [name |-> "", props |-> {}, apply |-> <<>>, skip |-> <<>>]
BadRule == [ok |-> FALSE, rule |-> NoRule]
FilterOK(val) == val.ty \in {"str", "strs"} /\ \A i \in DOMAIN val.v : ValidGlob(val.v[i])
Configured(name, P, a, s) ==
  LET r == Configure(name, P) IN
  IF r.ok THEN [ok |-> TRUE, rule |-> [name |-> name, props |-> r.props, apply |-> a, skip |-> s]] ELSE BadRule
\* impl Deserialize for Box<dyn Rule>: a rule name, or an object {rule, apply_to_files?, skip_files?, properties...}
ParseRule(rt) ==
  IF rt.form # "object" THEN
    LET e == rt.entries[1] IN
    IF e.ty = "str" /\ e.v[1] \in AllRules THEN Configured(e.v[1], {}, <<>>, <<>>) ELSE BadRule
  ELSE LET es == rt.entries IN
    IF ~NoDup(es) \/ ~Has(es, "rule") THEN BadRule
    ELSE IF Get(es, "rule").ty # "str" THEN BadRule
    ELSE IF Get(es, "rule").v[1] \notin AllRules THEN BadRule
    ELSE IF Has(es, "apply_to_files") /\ ~FilterOK(Get(es, "apply_to_files")) THEN BadRule
    ELSE IF Has(es, "skip_files") /\ ~FilterOK(Get(es, "skip_files")) THEN BadRule
    ELSE Configured(Get(es, "rule").v[1],
                    {<<es[i].k, ValOf(es[i])>> : i \in {j \in DOMAIN es : es[j].k \notin {"rule", "apply_to_files", "skip_files"}}},
                    IF Has(es, "apply_to_files") THEN Get(es, "apply_to_files").v ELSE <<>>,
                    IF Has(es, "skip_files") THEN Get(es, "skip_files").v ELSE <<>>)

SerProps(r) ==
  CASE r.name = "convert_require" /\ DevConvertRequireNoProps -> {}
  [] r.name = "remove_comments" /\ DevRemoveCommentsNoExcept -> {kv \in r.props : kv[1] # "except"}
  [] r.name = "remove_attribute" /\ DevRemoveAttributeNoMatch -> {kv \in r.props : kv[1] # "match"}
  [] OTHER -> r.props
RuleFilterEntry(k, pats) == IF pats = <<>> THEN <<>> ELSE IF Len(pats) = 1 THEN <<E(k, S(pats[1]))>> ELSE <<E(k, L(pats))>>
\* impl Serialize for dyn Rule
SerRule(r) ==
  LET p == SerProps(r) IN
  LET sk == IF DevSkipGuardUsesApply /\ r.apply = <<>> THEN <<>> ELSE r.skip IN
  IF p = {} /\ (DevStringFormDropsFilters \/ (r.apply = <<>> /\ r.skip = <<>>))
  THEN [form |-> "string", entries |-> <<E("rule", S(r.name))>>]
  ELSE [form |-> "object", entries |-> <<E("rule", S(r.name))>> \o RuleFilterEntry("apply_to_files", r.apply)
                                        \o RuleFilterEntry("skip_files", sk) \o PropEntries(p)]

BehavesRule(r) == [name |-> r.name, eff |-> Eff(r.name, r.props),
                   apply |-> {r.apply[i] : i \in DOMAIN r.apply}, skip |-> {r.skip[i] : i \in DOMAIN r.skip}]

\* ------------------------------------------------------------------------------------------ generator, bundle, top level
BadGen == [ok |-> FALSE, name |-> "", span |-> ""]
GenNames == {"retain_lines", "retain-lines", "dense", "readable"}
GenCanon(n) == IF n = "retain-lines" THEN "retain_lines" ELSE n
ParseGen(val, lax) ==
  IF val.ty = "str" THEN
    (IF val.v[1] \in GenNames THEN [ok |-> TRUE, name |-> GenCanon(val.v[1]), span |-> IF GenCanon(val.v[1]) = "retain_lines" THEN "" ELSE "80"] ELSE BadGen)
  ELSE IF val.ty # "obj" THEN BadGen
  ELSE LET es == Tri(val.v) IN
    IF Cardinality({i \in DOMAIN es : es[i].k = "name"}) # 1 THEN BadGen          \* missing / duplicate tag
    ELSE LET nv == Get(es, "name") IN
      IF nv.ty # "str" \/ nv.v[1] \notin GenNames THEN BadGen
      ELSE IF GenCanon(nv.v[1]) = "retain_lines" THEN
        (IF (lax /\ DevUnitGeneratorIgnoresFields) \/ Keys(es) = {"name"} THEN [ok |-> TRUE, name |-> "retain_lines", span |-> ""] ELSE BadGen)
      ELSE IF ~NoDup(es) \/ ~(Keys(es) \subseteq {"name", "column_span"}) THEN BadGen
      ELSE IF Has(es, "column_span") /\ (Get(es, "column_span").ty # "num" \/ Get(es, "column_span").v[1] \notin Usizes) THEN BadGen
      ELSE [ok |-> TRUE, name |-> nv.v[1], span |-> IF Has(es, "column_span") THEN Get(es, "column_span").v[1] ELSE "80"]
GenTriples(g) == <<"name", "str", g.name>> \o (IF g.name = "retain_lines" THEN <<>> ELSE <<"column_span", "num", g.span>>)

NoBundle == [on |-> FALSE, mode |-> DefaultMode("path"), ident |-> "", excl |-> <<>>]
BadBundle == [ok |-> FALSE, b |-> NoBundle]
ParseBundle(bes, lax) ==
  IF ~NoDup(bes) \/ ~(Keys(bes) \subseteq {"require_mode", "modules_identifier", "excludes"}) \/ ~Has(bes, "require_mode") THEN BadBundle
  ELSE IF ~ModeOf(Get(bes, "require_mode"), FALSE).ok THEN BadBundle
  ELSE IF Has(bes, "modules_identifier") /\ Get(bes, "modules_identifier").ty \notin {"str", "null"} THEN BadBundle
  \* the name of the variable that holds the bundled modules is written into the code: it has to be a Lua name
  ELSE IF Has(bes, "modules_identifier") /\ Get(bes, "modules_identifier").ty = "str" /\ ~ValidIdent(Get(bes, "modules_identifier").v[1]) THEN BadBundle
  ELSE IF Has(bes, "excludes") /\ Get(bes, "excludes").ty # "strs" THEN BadBundle
  ELSE IF Has(bes, "excludes") /\ ~(lax /\ DevBundleExcludesUnchecked) /\ \E i \in DOMAIN Get(bes, "excludes").v : ~ValidGlob(Get(bes, "excludes").v[i]) THEN BadBundle
  ELSE [ok |-> TRUE, b |-> [on |-> TRUE, mode |-> ModeOf(Get(bes, "require_mode"), FALSE),
                            ident |-> IF Has(bes, "modules_identifier") /\ Get(bes, "modules_identifier").ty = "str" THEN Get(bes, "modules_identifier").v[1] ELSE "",
                            excl |-> IF Has(bes, "excludes") THEN Get(bes, "excludes").v ELSE <<>>]]

DefaultRules == [i \in DOMAIN DefaultRuleNames |-> [name |-> DefaultRuleNames[i], props |-> {}, apply |-> <<>>, skip |-> <<>>]]
NoCfg == [rules |-> <<>>, gen |-> BadGen, bundle |-> NoBundle, apply |-> <<>>, skip |-> <<>>]
Bad == [ok |-> FALSE, cfg |-> NoCfg]
CanonKey(k) == IF k = "process" THEN "rules" ELSE k           \* #[serde(alias = "process")]
TopKeys == {"rules", "generator", "bundle", "apply_to_files", "skip_files"}
\* json5::from_str::<Configuration>; lax = with the deviations of the code (FALSE: as the property demands)
ParseX(t, lax) ==
  LET top == [i \in DOMAIN t.top |-> [t.top[i] EXCEPT !.k = CanonKey(@)]] IN
  IF ~NoDup(top) \/ ~(Keys(top) \subseteq TopKeys) THEN Bad
  ELSE IF Has(top, "rules") /\ Get(top, "rules").ty # "RULES" THEN Bad
  ELSE IF Has(top, "rules") /\ \E i \in DOMAIN t.rules : ~ParseRule(t.rules[i]).ok THEN Bad
  ELSE IF Has(top, "generator") /\ ~ParseGen(Get(top, "generator"), lax).ok THEN Bad
  ELSE IF Has(top, "bundle") /\ Get(top, "bundle").ty \notin {"BUNDLE", "null"} THEN Bad
  ELSE IF Has(top, "bundle") /\ Get(top, "bundle").ty = "BUNDLE" /\ ~ParseBundle(t.bundle, lax).ok THEN Bad
  ELSE IF Has(top, "apply_to_files") /\ ~FilterOK(Get(top, "apply_to_files")) THEN Bad
  ELSE IF Has(top, "skip_files") /\ ~FilterOK(Get(top, "skip_files")) THEN Bad
  ELSE [ok |-> TRUE, cfg |-> [
      rules  |-> IF Has(top, "rules") THEN [i \in DOMAIN t.rules |-> ParseRule(t.rules[i]).rule] ELSE DefaultRules,
      gen    |-> IF Has(top, "generator") THEN ParseGen(Get(top, "generator"), lax) ELSE ParseGen(S("retain_lines"), lax),
      bundle |-> IF Has(top, "bundle") /\ Get(top, "bundle").ty = "BUNDLE" THEN ParseBundle(t.bundle, lax).b ELSE NoBundle,
      apply  |-> IF Has(top, "apply_to_files") THEN Get(top, "apply_to_files").v ELSE <<>>,
      skip   |-> IF Has(top, "skip_files") THEN Get(top, "skip_files").v ELSE <<>>]]
Parse(t) == ParseX(t, TRUE)
Valid(t) == Parse(t).ok
\* validity as C19 states it: unknown keys and invalid patterns are errors everywhere
ValidIdeal(t) == ParseX(t, FALSE).ok

\* serde_json::to_string(&Configuration)
Ser(c) == [
  top    |-> <<E("rules", RulesVal), E("generator", O(GenTriples(c.gen)))>>
             \o (IF c.bundle.on THEN <<E("bundle", BundleVal)>> ELSE <<>>)
             \o (IF c.apply # <<>> THEN <<E("apply_to_files", L(c.apply))>> ELSE <<>>)
             \o (IF c.skip # <<>> THEN <<E("skip_files", L(c.skip))>> ELSE <<>>),
  rules  |-> [i \in DOMAIN c.rules |-> SerRule(c.rules[i])],
  bundle |-> IF c.bundle.on
             THEN <<E("require_mode", O(ModeTriples(c.bundle.mode)))>>
                  \o (IF c.bundle.ident # "" THEN <<E("modules_identifier", S(c.bundle.ident))>> ELSE <<>>)
                  \o (IF c.bundle.excl # <<>> THEN <<E("excludes", L(c.bundle.excl))>> ELSE <<>>)
             ELSE <<>>]

SetOf(seq) == {seq[i] : i \in DOMAIN seq}
Behaves(c) == [
  rules  |-> [i \in DOMAIN c.rules |-> BehavesRule(c.rules[i])],
  gen    |-> [name |-> c.gen.name, span |-> c.gen.span],
  bundle |-> [on |-> c.bundle.on, mode |-> c.bundle.mode,
              ident |-> IF c.bundle.ident = "" THEN "__DARKLUA_BUNDLE_MODULES" ELSE c.bundle.ident, excl |-> SetOf(c.bundle.excl)],
  apply  |-> SetOf(c.apply), skip |-> SetOf(c.skip)]

\* ------------------------------------------------------------------------------------------ comparing texts (order of keys is immaterial)
EntryEq(a, b) == a.k = b.k /\ a.ty = b.ty /\ (IF a.ty = "obj" THEN SetOf(Tri(a.v)) = SetOf(Tri(b.v)) /\ Len(a.v) = Len(b.v) ELSE a.v = b.v)
EntriesEq(x, y) == Len(x) = Len(y) /\ (\A i \in DOMAIN x : \E j \in DOMAIN y : EntryEq(x[i], y[j])) /\ (\A j \in DOMAIN y : \E i \in DOMAIN x : EntryEq(x[i], y[j]))
TextEq(t1, t2) ==
  /\ EntriesEq(t1.top, t2.top) /\ EntriesEq(t1.bundle, t2.bundle)
  /\ Len(t1.rules) = Len(t2.rules)
  /\ \A i \in DOMAIN t1.rules : t1.rules[i].form = t2.rules[i].form /\ EntriesEq(t1.rules[i].entries, t2.rules[i].entries)

\* ------------------------------------------------------------------------------------------ the theorems
RoundTrip(t) == LET c == Parse(t).cfg IN LET q == Parse(Ser(c)) IN q.ok /\ Behaves(q.cfg) = Behaves(c)
SerInjective(t1, t2) == LET c1 == Parse(t1).cfg IN LET c2 == Parse(t2).cfg IN TextEq(Ser(c1), Ser(c2)) => Behaves(c1) = Behaves(c2)
Strict(t, corrupted) == Valid(t) => ~Valid(corrupted)

\* ------------------------------------------------------------------------------------------ diagnosis (names the rule / property / filter involved)
\* what differs between two behaviours: <<site, keys...>>; site = a rule name, "generator", "bundle", "top", "rules" (different rule lists)
RuleDiff(b1, b2) ==
  {kv[1] : kv \in (b1.eff \ b2.eff) \cup (b2.eff \ b1.eff)}
  \cup (IF b1.apply # b2.apply THEN {"apply_to_files"} ELSE {}) \cup (IF b1.skip # b2.skip THEN {"skip_files"} ELSE {})
BehDiff(x, y) ==
  IF Len(x.rules) # Len(y.rules) \/ \E i \in DOMAIN x.rules : x.rules[i].name # y.rules[i].name THEN [site |-> "rules", keys |-> {}]
  ELSE IF \E i \in DOMAIN x.rules : x.rules[i] # y.rules[i] THEN
       LET i == CHOOSE j \in DOMAIN x.rules : x.rules[j] # y.rules[j] /\ \A k \in DOMAIN x.rules : k < j => x.rules[k] = y.rules[k] IN
       [site |-> x.rules[i].name, keys |-> RuleDiff(x.rules[i], y.rules[i])]
  ELSE IF x.gen # y.gen THEN [site |-> "generator", keys |-> {}]
  ELSE IF x.bundle # y.bundle THEN [site |-> "bundle", keys |-> {}]
  ELSE IF x.apply # y.apply \/ x.skip # y.skip THEN [site |-> "top", keys |-> (IF x.apply # y.apply THEN {"apply_to_files"} ELSE {}) \cup (IF x.skip # y.skip THEN {"skip_files"} ELSE {})]
  ELSE [site |-> "", keys |-> {}]
\* when the written text cannot be read back: the first rule of the text that is refused
UnreadableSite(t) ==
  IF \E i \in DOMAIN t.rules : ~ParseRule(t.rules[i]).ok
  THEN LET i == CHOOSE j \in DOMAIN t.rules : ~ParseRule(t.rules[j]).ok IN
       LET es == t.rules[i].entries IN IF Has(es, "rule") /\ Get(es, "rule").ty = "str" THEN Get(es, "rule").v[1] ELSE "rules"
  ELSE "top"
RECURSIVE SetToSeqS(_)
SetToSeqS(s) == IF s = {} THEN <<>> ELSE LET x == CHOOSE y \in s : TRUE IN <<x>> \o SetToSeqS(s \ {x})
=============================================================================
