---------------------------- MODULE CommentText ----------------------------
(* append_text_comment: how the configured text becomes a comment (transcription of        *)
(* AppendTextComment::text) and the safety theorem C18 needs: placed in front of code, the  *)
(* comment is lexed as exactly ONE comment token and the code after it is untouched.        *)
EXTENDS Integers, Sequences, TLC, LuaLex, Bytes

HasByte(q, c) == \E k \in 1..Len(q) : q[k] = c
ContainsSeq(h, n) == \E k \in 1..(Len(h) - Len(n) + 1) : SubSeq(h, k, k + Len(n) - 1) = n
Eqs(n) == [k \in 1..n |-> 61]
Closer(n) == <<93>> \o Eqs(n) \o <<93>>
RECURSIVE Level(_, _)
Level(t, n) == IF ContainsSeq(t, Closer(n)) THEN Level(t, n + 1) ELSE n
\* the two ways a text without line feed escapes a line comment
OpensLongBracket(t) == ~HasByte(t, 10) /\ LongOpen(t, 1) >= 0
HasLoneCR(t) == ~HasByte(t, 10) /\ HasByte(t, 13)
LongForm(t) == LET n == Level(t, 0) IN <<45, 45, 91>> \o Eqs(n) \o <<91, 10>> \o t \o <<10>> \o Closer(n)
\* the comment darklua writes for text t (bytes): empty text -> nothing; a text with a line feed, a carriage return or
\* a leading long-bracket opener -> long comment whose level avoids every closer inside the text; otherwise a line comment
CommentOf(t) ==
  IF t = <<>> THEN <<>>
  ELSE IF HasByte(t, 10) \/ HasByte(t, 13) \/ OpensLongBracket(t) THEN LongForm(t)
  ELSE <<45, 45>> \o t
\* DevLineCommentUnchecked (the code before the `fix:` commit): only a line feed selects the long form
CommentOfUnchecked(t) ==
  IF t = <<>> THEN <<>> ELSE IF HasByte(t, 10) THEN LongForm(t) ELSE <<45, 45>> \o t

Probe == <<114, 101, 116, 117, 114, 110, 32, 49>>          \* "return 1"
\* SafeC(c): comment c, newline, code  lexes as  one comment token followed by the code's tokens
SafeC(c) ==
  c = <<>> \/
  LET r == Lex(c \o <<10>> \o Probe, TRUE) IN
  /\ r.ok /\ Len(r.toks) = 3
  /\ r.toks[1].k = "comment" /\ r.toks[1].v = c
  /\ r.toks[2].v = <<114, 101, 116, 117, 114, 110>> /\ r.toks[3].v = <<49>>
Safe(t) == SafeC(CommentOf(t))
SafeUnchecked(t) == SafeC(CommentOfUnchecked(t))
=============================================================================
