---------------------------- MODULE CommentText ----------------------------
(* append_text_comment: how the configured text becomes a comment (transcription of        *)
(* AppendTextComment::text) and the safety theorem C18 needs: placed in front of code, the  *)
(* comment is lexed as exactly ONE comment token and the code after it is untouched.        *)
EXTENDS Integers, Sequences, TLC, LuaLex, Bytes

HasByte(q, c) == \E k \in 1..Len(q) : q[k] = c
ContainsSeq(h, n) == \E k \in 1..(Len(h) - Len(n) + 1) : SubSeq(h, k, k + Len(n) - 1) = n
Eqs(n) == [k \in 1..n |-> 61]
Closer(n) == <<93>> \o Eqs(n) \o <<93>>
RECURSIVE Level(_, _)
Level(t, n) == IF ContainsSeq(t, Closer(n)) THEN Level(t, n + 1) ELSE n
\* the comment darklua writes for text t (bytes): empty text -> nothing; text with a newline -> long comment whose
\* level avoids every closer inside the text; otherwise a line comment
CommentOf(t) ==
  IF t = <<>> THEN <<>>
  ELSE IF HasByte(t, 10) THEN LET n == Level(t, 0) IN <<45, 45, 91>> \o Eqs(n) \o <<91, 10>> \o t \o <<10>> \o Closer(n)
  ELSE <<45, 45>> \o t

Probe == <<114, 101, 116, 117, 114, 110, 32, 49>>          \* "return 1"
\* Safe(t): comment, newline, code  lexes as  one comment token followed by the code's tokens
Safe(t) ==
  LET c == CommentOf(t) IN
  c = <<>> \/
  LET r == Lex(c \o <<10>> \o Probe, TRUE) IN
  /\ r.ok /\ Len(r.toks) = 3
  /\ r.toks[1].k = "comment" /\ r.toks[1].v = c
  /\ r.toks[2].v = <<114, 101, 116, 117, 114, 110>> /\ r.toks[3].v = <<49>>
\* the two ways a text escapes its comment (triggers of the open finding F-C18-a)
OpensLongBracket(t) == ~HasByte(t, 10) /\ LongOpen(t, 1) >= 0
HasLoneCR(t) == ~HasByte(t, 10) /\ HasByte(t, 13)
=============================================================================
