------------------------------- MODULE Resolve -------------------------------
(* Require resolution (path and luau modes) and require conversion between the two.      *)
(*                                                                                        *)
(* Paths are sequences of segments; a segment is [stem, ext] ("a.lua" = [a, lua]);        *)
(* "." and ".." are the segments Cur and Par.  A file system is a set of canonical paths. *)
(*                                                                                        *)
(* Two layers:                                                                            *)
(*   - DocResolve: the DOCUMENTED resolution (site/content/docs/path-require-mode,        *)
(*     luau-require-mode): head of the path, then the first existing candidate.           *)
(*   - Generate*: a transcription of PathRequireMode::generate_require and                *)
(*     LuauRequireMode::generate_require, so that the conversion theorem                  *)
(*     ConvertKeepsTarget can be model-checked at design level and every counterexample   *)
(*     replayed into the real rule.                                                       *)
EXTENDS Integers, Sequences, FiniteSets, TLC

Seg(stem, ext) == [stem |-> stem, ext |-> ext]
Cur == Seg(".", "")
Par == Seg("..", "")
IsSpecial(n) == n = Cur \/ n = Par
IsLua(n)  == n.ext \in {"lua", "luau"}
Full(n)   == IF n.ext = "" THEN n.stem ELSE n.stem \o "." \o n.ext
AppendExt(n, e) == Seg(Full(n), e)           \* Rust: name.push(".luau") -- appends, never replaces

Last(p)    == p[Len(p)]
Front(p)   == SubSeq(p, 1, Len(p) - 1)

\* ---- lexical normalisation (utils::normalize): keepCur = normalize_path_with_current_dir
RECURSIVE NormAcc(_, _, _, _)
NormAcc(p, i, acc, keepCur) ==
  IF i > Len(p) THEN acc
  ELSE LET c == p[i] IN
       IF c = Cur THEN NormAcc(p, i + 1, IF keepCur /\ acc = <<>> THEN <<Cur>> ELSE acc, keepCur)
       ELSE IF c = Par THEN
            IF acc = <<>> THEN NormAcc(p, i + 1, <<Par>>, keepCur)
            ELSE IF Last(acc) = Cur THEN NormAcc(p, i + 1, Front(acc) \o <<Par>>, keepCur)
            ELSE IF Last(acc) # Par THEN NormAcc(p, i + 1, Front(acc), keepCur)
            ELSE NormAcc(p, i + 1, acc \o <<Par>>, keepCur)
       ELSE NormAcc(p, i + 1, acc \o <<c>>, keepCur)
Normalize(p, keepCur) == LET r == NormAcc(p, 1, <<>>, keepCur) IN IF r = <<>> THEN <<Cur>> ELSE r
Canon(p) == LET r == NormAcc(p, 1, <<>>, FALSE) IN r      \* <<>> = the project root itself

\* ---- candidates, in the documented order
Candidates(p, mfn) ==
  LET withFolder == <<p \o <<mfn>>>> \o (IF mfn.ext = "" THEN <<p \o <<Seg(mfn.stem, "luau")>>, p \o <<Seg(mfn.stem, "lua")>>>> ELSE <<>>) IN
  IF p = <<>> \/ IsSpecial(Last(p)) THEN <<p>> \o withFolder
  ELSE IF IsLua(Last(p)) THEN <<p>>
  ELSE <<p, Front(p) \o <<AppendExt(Last(p), "luau")>>, Front(p) \o <<AppendExt(Last(p), "lua")>>>> \o withFolder

NotFound == <<Seg("!notfound", "")>>
FirstExisting(fs, cands) ==
  LET idx == {i \in 1..Len(cands) : Canon(cands[i]) \in fs} IN
  IF idx = {} THEN NotFound ELSE Canon(cands[CHOOSE i \in idx : \A j \in idx : i <= j])

\* ---- head of the path
IsRelative(r) == r = <<>> \/ IsSpecial(r[1])        \* the empty path is the request `.`
ParentDir(src) == Front(src)                                  \* src is a canonical file path
IsModuleFolderFile(src, mfn) == Last(src).stem = mfn.stem \/ Full(Last(src)) = Full(mfn)

\* mode "path": relative to the requiring file's directory, else first component = source name
\* mode "luau": relative: the requiring file's directory, or its PARENT when the requiring file is a module-folder file;
\*              "@self": the requiring file's directory; "@name": alias
\* aliases: function from alias name to a canonical directory path
HeadOf(mode, r, src, aliases, mfn) ==
  IF IsRelative(r) THEN
       IF mode = "luau" /\ IsModuleFolderFile(src, Seg("init", "")) THEN ParentDir(ParentDir(src)) \o r
       ELSE ParentDir(src) \o r
  ELSE IF mode = "luau" /\ r[1] = Seg("@self", "") THEN ParentDir(src) \o Tail(r)
  ELSE IF Full(r[1]) \in DOMAIN aliases THEN aliases[Full(r[1])] \o Tail(r)
  ELSE <<Seg("!unknown-source", "")>>

FolderName(mode, mfn) == IF mode = "luau" THEN Seg("init", "") ELSE mfn

DocResolve(mode, r, src, fs, aliases, mfn) ==
  LET h == HeadOf(mode, r, src, aliases, mfn) IN
  IF h = <<Seg("!unknown-source", "")>> THEN NotFound
  ELSE FirstExisting(fs, Candidates(Normalize(h, TRUE), FolderName(mode, mfn)))

\* ---- generate_require (transcription).  `file` is the canonical path of the resolved file.
StartsWith(p, q) == Len(p) >= Len(q) /\ SubSeq(p, 1, Len(q)) = q

\* pathdiff::diff_paths(file, dir) for canonical (no ./..) relative paths
RECURSIVE CommonLen(_, _, _)
CommonLen(a, b, i) == IF i <= Len(a) /\ i <= Len(b) /\ a[i] = b[i] THEN CommonLen(a, b, i + 1) ELSE i - 1
DiffPaths(file, dir) ==
  LET k == CommonLen(file, dir, 1) IN
  [i \in 1..(Len(dir) - k) |-> Par] \o SubSeq(file, k + 1, Len(file))

\* get_relative_path(.., use_current_dir_prefix = TRUE) followed by normalize_path_with_current_dir
RelFromSource(file, src) ==
  LET d == DiffPaths(file, ParentDir(src)) IN
  Normalize(IF d = <<>> \/ ~IsSpecial(d[1]) THEN <<Cur>> \o d ELSE d, TRUE)

BestAlias(file, aliases) ==
  LET ok == {a \in DOMAIN aliases : StartsWith(file, aliases[a])} IN
  IF ok = {} THEN "" ELSE CHOOSE a \in ok : \A b \in ok : Len(aliases[a]) >= Len(aliases[b])

StripTail(p, mode, mfn) ==
  LET f == FolderName(mode, mfn) IN
  IF p # <<>> /\ ~IsSpecial(Last(p)) /\ (Full(Last(p)) = Full(f) \/ Last(p).stem = Full(f)) THEN Front(p)
  ELSE IF p # <<>> /\ IsLua(Last(p)) THEN Front(p) \o <<Seg(Last(p).stem, "")>>
  ELSE p

\* the path before its tail (module-folder file name, lua/luau extension) is shortened
FullPath(file, src, aliases) ==
  LET a == BestAlias(file, aliases) IN
  IF a # "" THEN <<Seg(a, "")>> \o SubSeq(file, Len(aliases[a]) + 1, Len(file)) ELSE RelFromSource(file, src)

FullLuau(file, src, aliases) ==
  LET a == BestAlias(file, aliases) IN
  IF a # "" THEN <<Seg(a, "")>> \o SubSeq(file, Len(aliases[a]) + 1, Len(file))
  ELSE LET rel == RelFromSource(file, src) IN
       IF IsModuleFolderFile(src, Seg("init", "")) THEN
            IF rel[1] = Cur THEN <<Seg("@self", "")>> \o Tail(rel)
            ELSE IF Len(rel) >= 2 /\ rel[1] = Par /\ rel[2] = Par THEN Tail(rel)
            ELSE IF rel[1] = Par THEN <<Cur>> \o Tail(rel)
            ELSE rel
       ELSE rel

FullRequest(target, file, src, aliases) ==
  IF target = "luau" THEN FullLuau(file, src, aliases) ELSE FullPath(file, src, aliases)

\* DevStripUnchecked (the code before the `fix:` commit): the tail is always shortened.
GenerateUnchecked(target, file, src, aliases, mfn) ==
  StripTail(FullRequest(target, file, src, aliases), target, IF target = "luau" THEN Seg("init", "") ELSE mfn)

\* generate_require: the tail is shortened unless the shortened request resolves to ANOTHER existing file
Generate(target, file, src, fs, aliases, mfn) ==
  LET g == FullRequest(target, file, src, aliases) IN
  LET s == StripTail(g, target, IF target = "luau" THEN Seg("init", "") ELSE mfn) IN
  IF s # g /\ DocResolve(target, s, src, fs, aliases, mfn) \notin {NotFound, file} THEN g ELSE s

\* The conversion property: converting a require that resolves keeps its target.
ConvertKeepsTarget(cur, tgt, r, src, fs, aliases, mfn) ==
  LET f == DocResolve(cur, r, src, fs, aliases, mfn) IN
  f # NotFound => DocResolve(tgt, Generate(tgt, f, src, fs, aliases, mfn), src, fs, aliases, mfn) = f
ConvertKeepsTargetUnchecked(cur, tgt, r, src, fs, aliases, mfn) ==
  LET f == DocResolve(cur, r, src, fs, aliases, mfn) IN
  f # NotFound => DocResolve(tgt, GenerateUnchecked(tgt, f, src, aliases, mfn), src, fs, aliases, mfn) = f
=============================================================================
