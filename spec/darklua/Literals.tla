------------------------------ MODULE Literals ------------------------------
(* String and number literals (C13).                                                         *)
(*  (1) A transcription of darklua's string writer (src/generator/utils.rs: write_string,    *)
(*      write_quoted, write_long_bracket, escape, get_quote_symbol, needs_escaping,          *)
(*      needs_quoted_string; thresholds QUOTED_STRING_MAX_LENGTH = 60,                       *)
(*      LONG_STRING_MIN_LENGTH = 20, FORCE_LONG_STRING_NEW_LINE_THRESHOLD = 6) over byte     *)
(*      sequences, with Rust's str::from_utf8 as a TLA+ UTF-8 decoder.                       *)
(*      Theorem RoundTrip: the reference lexer LuaLex reads WriteString(s) back as one       *)
(*      string token whose decoded value is s (Luau rules; Lua 5.1 rules unless the writer   *)
(*      uses the Luau-only backslash-u{...} escape, i.e. unless s is valid UTF-8 with a non-ASCII character).            *)
(*  (2) The families of byte strings and doubles the property quantifies over                *)
(*      (enumerated by MC_Literals).                                                         *)
EXTENDS LuaLex, Bytes, Integers, Sequences, IOUtils
\* ------------------------------------------------------------------ UTF-8 (Rust str::from_utf8)
IsCont(x) == x >= 128 /\ x <= 191
RECURSIVE Utf8Cps(_, _, _)
\* <<valid, code points>>
Utf8Cps(s, p, acc) ==
  IF p > Len(s) THEN <<TRUE, acc>>
  ELSE LET a == s[p] IN
       LET b1 == At(s, p + 1) IN LET b2 == At(s, p + 2) IN LET b3 == At(s, p + 3) IN
       IF a < 128 THEN Utf8Cps(s, p + 1, Append(acc, a))
       ELSE IF a >= 194 /\ a <= 223 /\ IsCont(b1) THEN Utf8Cps(s, p + 2, Append(acc, (a - 192) * 64 + (b1 - 128)))
       ELSE IF /\ IsCont(b1) /\ IsCont(b2)
               /\ \/ (a = 224 /\ b1 >= 160)
                  \/ (a >= 225 /\ a <= 236)
                  \/ (a = 237 /\ b1 <= 159)
                  \/ a \in {238, 239}
            THEN Utf8Cps(s, p + 3, Append(acc, (a - 224) * 4096 + (b1 - 128) * 64 + (b2 - 128)))
       ELSE IF /\ IsCont(b1) /\ IsCont(b2) /\ IsCont(b3)
               /\ \/ (a = 240 /\ b1 >= 144)
                  \/ (a >= 241 /\ a <= 243)
                  \/ (a = 244 /\ b1 <= 143)
            THEN Utf8Cps(s, p + 4, Append(acc, (a - 240) * 262144 + (b1 - 128) * 4096 + (b2 - 128) * 64 + (b3 - 128)))
       ELSE <<FALSE, acc>>
ValidUtf8(s) == Utf8Cps(s, 1, <<>>)[1]
HasNonAscii(s) == \E k \in 1..Len(s) : s[k] >= 128
\* the writer uses the Luau-only escape the Luau-only backslash-u{...} escape
NeedsUnicodeEscape(s) == Len(s) >= 2 /\ HasNonAscii(s) /\ ValidUtf8(s)

\* ------------------------------------------------------------------ the writer
IsGraphic(c) == c >= 33 /\ c <= 126
NeedsEscaping(c) == ~(IsGraphic(c) \/ c = 32) \/ c = 92
NeedsQuotedString(c) == ~(IsGraphic(c) \/ c = 32 \/ c = 10)
DecDigits(n) == IF n < 10 THEN <<48 + n>> ELSE IF n < 100 THEN <<48 + (n \div 10), 48 + (n % 10)>> ELSE <<48 + (n \div 100), 48 + ((n \div 10) % 10), 48 + (n % 10)>>
Pad3(n) == <<48 + (n \div 100), 48 + ((n \div 10) % 10), 48 + (n % 10)>>
HexDigit(d) == IF d < 10 THEN 48 + d ELSE 87 + d
RECURSIVE HexDigits(_)
HexDigits(n) == IF n < 16 THEN <<HexDigit(n)>> ELSE Append(HexDigits(n \div 16), HexDigit(n % 16))
\* MUTATE_NOPAD=1 in the environment seeds a mutant of `escape` (no three-digit padding before a digit); it exists only to
\* demonstrate that the theorem and the conformance check bind and is unset in every real run.
MutantNoPad == "MUTATE_NOPAD" \in DOMAIN IOEnv /\ IOEnv.MUTATE_NOPAD = "1"
\* escape(character, next_character): next = -1 when there is none
Escape(c, next) ==
  CASE c = 10 -> <<92, 110>> [] c = 9 -> <<92, 116>> [] c = 92 -> <<92, 92>> [] c = 13 -> <<92, 114>>
    [] c = 7 -> <<92, 97>> [] c = 8 -> <<92, 98>> [] c = 11 -> <<92, 118>> [] c = 12 -> <<92, 102>>
    [] OTHER -> IF next >= 48 /\ next <= 57 /\ ~MutantNoPad THEN <<92>> \o Pad3(c) ELSE <<92>> \o DecDigits(c)
QuoteSymbol(s) == IF \E k \in 1..Len(s) : s[k] = 34 THEN 39 ELSE IF \E k \in 1..Len(s) : s[k] = 39 THEN 34 ELSE 39
RECURSIVE QuotedCps(_, _, _), QuotedBytes(_, _, _)
\* valid UTF-8: the loop runs over chars; `next_character.map(|c| c as u8)` truncates the next char to its low byte
QuotedCps(cps, k, q) ==
  IF k > Len(cps) THEN <<>>
  ELSE LET c == cps[k] IN LET next == IF k < Len(cps) THEN cps[k + 1] % 256 ELSE -1 IN
       (IF c = q THEN <<92, q>>
        ELSE IF c >= 128 THEN <<92, 117, 123>> \o HexDigits(c) \o <<125>>
        ELSE IF NeedsEscaping(c) THEN Escape(c, next)
        ELSE <<c>>) \o QuotedCps(cps, k + 1, q)
QuotedBytes(s, k, q) ==
  IF k > Len(s) THEN <<>>
  ELSE LET c == s[k] IN LET next == IF k < Len(s) THEN s[k + 1] ELSE -1 IN
       (IF c = q THEN <<92, q>> ELSE IF NeedsEscaping(c) THEN Escape(c, next) ELSE <<c>>) \o QuotedBytes(s, k + 1, q)
WriteQuoted(s) ==
  LET q == QuoteSymbol(s) IN LET u == Utf8Cps(s, 1, <<>>) IN
  <<q>> \o (IF u[1] THEN QuotedCps(u[2], 1, q) ELSE QuotedBytes(s, 1, q)) \o <<q>>
Rep(c, n) == [k \in 1..n |-> c]
ContainsSeq(h, n) == \E k \in 1..(Len(h) - Len(n) + 1) : SubSeq(h, k, k + Len(n) - 1) = n
RECURSIVE BracketLevel(_, _)
BracketLevel(s, i) == IF ContainsSeq(s, <<93>> \o Rep(61, i) \o <<93>>) THEN BracketLevel(s, i + 1) ELSE i
\* the level chosen by write_long_bracket: the first level whose closing bracket first occurs in `value ++ closer` at
\* the very end (repaired finding F-C13-a).  DEV_LONG_BRACKET=1 restores the old choice (closer not INSIDE the value,
\* one more when the value ends with `]`) for demonstrations
DevLongBracket == "DEV_LONG_BRACKET" \in DOMAIN IOEnv /\ IOEnv.DEV_LONG_BRACKET = "1"
FirstAt(h, n) == CHOOSE k \in 1..(Len(h) - Len(n) + 1) : SubSeq(h, k, k + Len(n) - 1) = n /\ \A j \in 1..(k - 1) : SubSeq(h, j, j + Len(n) - 1) # n
RECURSIVE SafeLevel(_, _)
SafeLevel(s, i) == LET c == <<93>> \o Rep(61, i) \o <<93>> IN IF FirstAt(s \o c, c) = Len(s) + 1 THEN i ELSE SafeLevel(s, i + 1)
LevelOf(s) == IF DevLongBracket THEN BracketLevel(s, IF s[Len(s)] = 93 THEN 1 ELSE 0) ELSE SafeLevel(s, 0)
WriteLongBracket(s) ==
  LET i == LevelOf(s) IN
  <<91>> \o Rep(61, i) \o <<91>> \o (IF s[1] = 10 THEN <<10>> ELSE <<>>) \o s \o <<93>> \o Rep(61, i) \o <<93>>
CountNl(s) == Len(SelectSeq(s, LAMBDA c : c = 10))
UsesLongBracket(s) ==
  /\ Len(s) >= 20 /\ ~\E k \in 1..Len(s) : NeedsQuotedString(s[k])
  /\ (Len(s) >= 60 \/ CountNl(s) >= 6)
WriteString(s) ==
  IF Len(s) = 0 THEN <<39, 39>>
  ELSE IF Len(s) = 1 THEN
       (IF s[1] = 39 THEN <<34, 39, 34>> ELSE IF s[1] = 34 THEN <<39, 34, 39>>
        ELSE IF NeedsEscaping(s[1]) THEN <<39>> \o Escape(s[1], -1) \o <<39>> ELSE <<39, s[1], 39>>)
  ELSE IF UsesLongBracket(s) THEN WriteLongBracket(s)
  ELSE WriteQuoted(s)
\* write_string_on_one_line (the token-based generator, for a string node that holds no token: repaired finding F-C04-b):
\* always between quotes, line feeds escaped
WriteStringOneLine(s) == IF Len(s) <= 1 THEN WriteString(s) ELSE WriteQuoted(s)

\* ------------------------------------------------------------------ the theorem
ReadsBackAs(text, s, luau) == LET r == Lex(text, luau) IN r.ok /\ Len(r.toks) = 1 /\ r.toks[1].k = "str" /\ r.toks[1].v = s
RoundTrip(s) == /\ ReadsBackAs(WriteString(s), s, TRUE) /\ (NeedsUnicodeEscape(s) \/ ReadsBackAs(WriteString(s), s, FALSE))
                /\ ReadsBackAs(WriteStringOneLine(s), s, TRUE) /\ (NeedsUnicodeEscape(s) \/ ReadsBackAs(WriteStringOneLine(s), s, FALSE))
\* REPAIRED finding F-C13-a (where the old writer, DEV_LONG_BRACKET=1, fails): the long-bracket level was chosen so that `]=*]` of that level does not occur INSIDE the value
\* (and one more when the value ends with `]`), but a value ending with `]` followed by exactly `level` `=` signs forms
\* the closing bracket together with the first `]` of the real one
Trigger_F_C13_a(s) ==
  UsesLongBracket(s) /\ LET i == BracketLevel(s, IF s[Len(s)] = 93 THEN 1 ELSE 0) IN
                        i >= 1 /\ Len(s) > i /\ SubSeq(s, Len(s) - i, Len(s)) = <<93>> \o Rep(61, i)
=============================================================================
