----------------------------- MODULE RuleProducts -----------------------------
(* GENERATED redex families for the meaning-preservation properties (C01, C06, C16, C17).     *)
(* RuleCases.tla lists trigger shapes by hand; this module closes the families under the       *)
(* ORDER and KIND of operands: every place where a rule keeps, drops, duplicates or moves      *)
(* operand expressions (values of an unused local, arguments of a removed call, prefix / key   *)
(* of a compound assignment, receiver of a method call, entries of a table argument) is        *)
(* filled with every sequence of operand KINDS, each operand carrying its position number so   *)
(* that a change of evaluation order, a lost or a duplicated evaluation shows up in the log    *)
(* of external calls and metamethods (t, t2 are tables with the loud metatable, see            *)
(* spec/lua/README.md: every index / concat / arithmetic on them is logged).                   *)
EXTENDS RuleCases

N(i) == CASE i = 1 -> "1" [] i = 2 -> "2" [] i = 3 -> "3" [] i = 4 -> "4" [] i = 5 -> "5" [] OTHER -> "6"
\* operand kinds valid in Lua 5.1 and Luau
A(k, i) ==
  CASE k = "call"   -> "ext1(" \o N(i) \o ")"                        \* a call (kept as a statement by the rules)
    [] k = "field"  -> "t.k" \o N(i)                                 \* non-call, may run __index
    [] k = "index"  -> "t[" \o N(i) \o "]"                           \* non-call, may run __index
    [] k = "concat" -> "t .. \"" \o N(i) \o "\""                     \* non-call, may run __concat
    [] k = "arith"  -> "t2 + " \o N(i)                               \* non-call, may run __add
    [] k = "neg"    -> "-t2"                                         \* non-call, may run __unm
    [] k = "len"    -> "#t"                                          \* non-call, may run __len
    [] k = "cmp"    -> "ext1(" \o N(i) \o ") == 0"                   \* non-call containing a call
    [] k = "not"    -> "not ext1(" \o N(i) \o ")"
    [] k = "paren"  -> "(ext1(" \o N(i) \o "))"                      \* parenthesised call (one value)
    [] k = "table"  -> "{ext1(" \o N(i) \o ")}"                      \* constructor containing a call
    [] k = "and"    -> "ext1(" \o N(i) \o ") and ext1(" \o N(i) \o N(i) \o ")"
    [] k = "pure"   -> N(i)
    [] k = "str"    -> "\"s" \o N(i) \o "\""
    [] k = "fn"     -> "function() return ext1(" \o N(i) \o ") end"   \* no effect unless called
    [] k = "multi"  -> "ext2()"                                      \* two values when last
    [] k = "va"     -> "..."
    [] k = "mcall"  -> "t:m(" \o N(i) \o ")"                         \* method call on a loud table
    \* Luau only
    [] k = "cast"   -> "ext1(" \o N(i) \o ") :: any"
    [] k = "ifx"    -> "if ext1(" \o N(i) \o ") then ext1(" \o N(i) \o N(i) \o ") else 0"
    [] k = "interp" -> "`a{ext1(" \o N(i) \o ")}b`"
    [] k = "interpt" -> "`{t}`"                                      \* may run __tostring
    [] OTHER -> "nil"

KindsQuick == {"call", "field", "concat", "cmp", "pure", "paren"}
KindsFull  == {"call", "field", "index", "concat", "arith", "neg", "len", "cmp", "not", "paren", "table", "and", "pure", "str", "fn", "mcall"}
LuauKinds  == {"cast", "ifx", "interp", "interpt"}
K(tier) == IF tier = "thorough" THEN KindsFull ELSE KindsQuick
Triples(S) == S \X S \X S
Pairs(S) == S \X S
L3(p) == A(p[1], 1) \o ", " \o A(p[2], 2) \o ", " \o A(p[3], 3)
L2(p) == A(p[1], 1) \o ", " \o A(p[2], 2)

\* ---- RUNS of n consecutive declarations followed by one that READS the k-th of them (group_local_assignment must not merge the
\* reader into the group; the helper that answers "is one of these names mentioned" sees 1..12 names, in declaration order)
RunNames == << "width", "height", "depth", "scale", "origin", "label", "color", "alpha", "beta", "gamma", "delta", "omega" >>
RECURSIVE RunDecls(_, _)
RunDecls(n, i) == IF i > n THEN "" ELSE "local " \o RunNames[i] \o " = " \o SubSeq("0123456789abc", i + 1, i + 1) \o " " \o RunDecls(n, i + 1)
UsedRuns == {r \in {<<n, k>> : n \in 1..12, k \in 1..12} : r[2] <= r[1]}
LongRunShapes == {RunDecls(r[1], 1) \o "local dep = " \o RunNames[r[2]] \o " ext1(dep, " \o RunNames[r[1]] \o ")" : r \in UsedRuns}
               \cup {RunDecls(r[1], 1) \o "local dep = function() return " \o RunNames[r[2]] \o " end ext1(dep(), " \o RunNames[1] \o ")" : r \in UsedRuns}

\* ---- unused / partly used locals (remove_unused_variable, remove_nil_declaration, group_local_assignment ...)
UnusedLocals(tier) ==
     {"local a, b, c = " \o L3(p) : p \in Triples(K(tier))}                                  \* all unused
\cup {"local a, b, c = " \o L3(p) \o " ext1(b)" : p \in Triples(K(tier))}                    \* one used
\cup {"local a = " \o L3(p) : p \in Triples(K(tier))}                                        \* surplus values
\cup {"local a, b, c = " \o L2(p) \o ", " \o last : p \in Pairs(K(tier)), last \in {"ext2()", "..."}}  \* multi-value tail
\cup {"local a = " \o A(k, 1) \o " local b = " \o A(j, 2) \o " ext1(a, b)" : k \in K(tier), j \in K(tier)}
\cup {"local a, b = " \o A(k, 1) \o " local c, d = " \o A(j, 2) \o ", " \o last \o " ext1(a, b, c, d)" : k \in K(tier), j \in K(tier), last \in {"ext2()", "..."}}
\cup LongRunShapes

\* ---- calls removed by remove_assertions / remove_debug_profiling, in every call syntax
RemovedCalls(tier) ==
     {fn \o "(" \o L3(p) \o ")" : fn \in {"assert", "debug.profilebegin"}, p \in Triples(K(tier))}
\cup {"ext1(assert(" \o L2(p) \o "))" : p \in Pairs(K(tier))}
\cup {"local v = assert(" \o L2(p) \o ") ext1(v)" : p \in Pairs(K(tier))}
\cup {fn \o "{" \o A(p[1], 1) \o ", k = " \o A(p[2], 2) \o ", [" \o A(p[3], 3) \o "] = 4}" : fn \in {"assert", "debug.profilebegin"}, p \in Triples(K(tier))}
\cup {fn \o "{[" \o A(p[1], 1) \o "] = " \o A(p[2], 2) \o "}" : fn \in {"assert", "debug.profilebegin"}, p \in Pairs(K(tier))}
\cup {fn \o " \"s\"" : fn \in {"assert", "debug.profilebegin", "debug.profileend"}}
\cup {fn \o " [[long]]" : fn \in {"assert", "debug.profilebegin"}}
\cup {"assert(" \o L2(p) \o ", ext2())" : p \in Pairs(K(tier))}
\cup {"assert(" \o L2(p) \o ", ...)" : p \in Pairs(K(tier))}

\* ---- compound assignments: prefix kinds x key kinds x operators (remove_compound_assignment, remove_floor_division)
Prefixes == {"t", "t.p", "extt()", "(extt())", "t[ext1(7)]", "t2.a.b"}
KeyKinds(tier) == K(tier) \cup LuauKinds
CompoundOps(tier) == IF tier = "thorough" THEN {"+=", "-=", "*=", "/=", "//=", "%=", "^=", "..="} ELSE {"+=", "..=", "//="}
CompoundTargets(tier) ==
     {pf \o "[" \o A(k, 1) \o "] " \o op \o " " \o A(v, 2) : pf \in Prefixes, k \in KeyKinds(tier), op \in CompoundOps(tier), v \in {"call", "pure"}}
\cup {pf \o ".f " \o op \o " " \o A(v, 2) : pf \in Prefixes, op \in CompoundOps(tier), v \in K(tier) \cup LuauKinds}
\cup {"local o = {1, 2, 3} o[" \o A(k, 1) \o "] " \o op \o " 1 ext1(o)" : k \in {"call", "cast", "paren", "ifx", "cmp", "pure"}, op \in CompoundOps(tier)}

\* ---- method calls on every receiver kind (remove_method_call, remove_method_definition).  The loud tables answer
\* every index with a number, so objects with real methods are declared first; string receivers use string.rep / len
ObjPrelude == "local o = {m = function(self, ...) return ext1(\"m\", ...) end} o.p = o local function mk() ext1(9) return o end "
ObjReceivers(tier) == {"o", "(o)", "o.p", "o[ext1(1) and \"p\"]", "mk()", "(mk())", "({m = ext1})", "(if ext1(1) then o else o.p)", "(o :: any)",
                       "(o or o.p)", "(ext1(1) and o)"}
                      \cup (IF tier = "thorough" THEN {"o.p.p", "mk().p", "(function() return o end)()", "o.p[ext1(1) and \"p\"]"} ELSE {})
StrReceivers == {"(\"s\")", "(`x{ext1(1)}`)", "(`{t}`)", "(\"a\" .. ext1(1))", "(ext1(1) .. \"\")"}
MethodCalls(tier) ==
     {ObjPrelude \o r \o ":m(" \o A(k, 2) \o ")" : r \in ObjReceivers(tier), k \in K(tier)}
\cup {ObjPrelude \o "ext1(" \o r \o ":m(" \o A(k, 2) \o "))" : r \in ObjReceivers(tier), k \in {"call", "pure"}}
\cup {ObjPrelude \o r \o ":m \"s\"" : r \in ObjReceivers(tier)} \cup {ObjPrelude \o r \o ":m {" \o A(k, 2) \o "}" : r \in ObjReceivers(tier), k \in {"call", "field"}}
\cup {"ext1(" \o r \o ":rep(" \o A(k, 2) \o "))" : r \in StrReceivers, k \in {"pure", "call"}}
\cup {"ext1(" \o r \o ":len())" : r \in StrReceivers}
\cup {"local v = " \o r \o ":rep(2) ext1(v)" : r \in StrReceivers}

\* ---- if-expressions: condition truthiness classes x branches (remove_if_expression, static evaluation)
Conds == {"true", "false", "nil", "ext1(1)", "extf()", "extn()", "t", "0", "\"\"", "ext1(1) == 1", "not ext1(1)"}
Branches == {"ext1(2)", "extf()", "extn()", "nil", "false", "3", "t.k", "ext2()", "(ext2())"}
IfExprs(tier) ==
     {"ext1(if " \o c \o " then " \o a \o " else " \o b \o ")" : c \in Conds, a \in Branches, b \in {"ext1(4)", "nil", "5"}}
\cup {"ext1(if " \o c \o " then " \o a \o " elseif " \o d \o " then " \o b \o " else 9)" :
        c \in {"false", "nil", "extf()", "ext1(1)"}, d \in {"true", "ext1(5)", "extf()", "t", "nil"}, a \in {"1", "extn()"}, b \in {"ext1(6)", "false", "nil"}}
\* an if-expression AS A CONDITION (only its truthiness is used, but every branch expression still runs at most once)
\cup {"if if " \o c \o " then " \o a \o " else " \o b \o " then ext1(7) else ext1(8) end" : c \in Conds, a \in Branches, b \in {"ext1(4)", "nil", "5", "extf()"}}
\cup {"if (if " \o c \o " then " \o a \o " else " \o b \o ") then ext1(7) elseif if " \o c \o " then " \o b \o " else " \o a \o " then ext1(8) end" :
        c \in {"ext1(1)", "extf()", "t"}, a \in {"ext1(2)", "extf()", "extn()", "nil", "false"}, b \in {"ext1(4)", "extf()", "5"}}
\cup {"local n = 0 while if " \o c \o " then " \o a \o " else " \o b \o " do n = n + 1 ext1(7) break end ext1(n)" : c \in {"ext1(1)", "extf()"}, a \in Branches, b \in {"ext1(4)", "nil"}}
\cup {"repeat ext1(7) until if " \o c \o " then " \o a \o " else " \o b : c \in {"ext1(1)", "extf()"}, a \in {"ext1(2)", "extf()", "nil", "true"}, b \in {"ext1(4)", "true"}}
\cup {"ext1(not (if " \o c \o " then " \o a \o " else " \o b \o "))" : c \in {"ext1(1)", "extf()"}, a \in {"ext1(2)", "extf()", "nil"}, b \in {"ext1(4)", "nil"}}
\cup (IF tier = "thorough"
      THEN {"ext1(if " \o c \o " then " \o a \o " elseif " \o d \o " then " \o b \o " elseif " \o e \o " then 7 else 9)" :
              c \in {"false", "ext1(1)"}, d \in {"ext1(5)", "extf()", "nil"}, e \in {"true", "ext1(8)", "extf()"}, a \in {"1", "extn()"}, b \in {"ext1(6)", "false"}}
      ELSE {})

\* ---- scope shapes: a binder that introduces the name x while an OUTER x is read by the binder's own initialiser /
\* iterator / bound expressions (which Lua evaluates before the new x exists), in every binder kind; plus the implicit
\* and explicit `self` of methods.  Every rule that tracks scopes (remove_unused_variable, rename_variables,
\* convert_local_function_to_assign, group_local_assignment, inject_global_value ...) must resolve these like Lua does.
It == "local function it(s, i) if i < s then return i + 1 end end "
OuterUses(tier) == IF tier = "thorough" THEN {"x", "x + 0", "(x)", "f(x)", "-(-x)", "({x})[1]"} ELSE {"x", "x + 0", "f(x)"}
BinderShapes(u) == {
  "local x = 2 local x = " \o u \o " ext1(x)",
  "local x = 2 local y, x = 1, " \o u \o " ext1(x, y)",
  "local x = 2 local x, y = " \o u \o ", " \o u \o " ext1(x, y)",
  "local x = 2 for x = 1, " \o u \o " do ext1(x) end",
  "local x = 2 for x = " \o u \o ", 3 do ext1(x) end",
  "local x = 2 for x = 1, 3, " \o u \o " do ext1(x) end ext1(x)",
  It \o "local x = 2 for x in it, " \o u \o ", 0 do ext1(x) end",
  It \o "local x = 2 for i, x in it, " \o u \o ", 0 do ext1(i, x) end",
  It \o "local x = 0 for x in it, 2, " \o u \o " do ext1(x) end ext1(x)",
  It \o "local x = it for x in " \o u \o ", 2, 0 do ext1(x) end",
  "local x = 2 local function g(x) return x end ext1(g(" \o u \o "))",
  "local x = 2 local g = function(x, ...) return x, ... end ext1(g(1, " \o u \o "))",
  "local x = 2 repeat local x = " \o u \o " - 2 ext1(x) until x == 0",
  "local x = 2 repeat local y = " \o u \o " x = x - 1 until x == 0 ext1(x)",
  "local x = 2 while x > 0 do local x = " \o u \o " ext1(x) break end",
  "local x = 2 if x then local x = " \o u \o " + 1 ext1(x) end ext1(x)",
  "local x = 2 do local x = " \o u \o " end ext1(3)",
  "local x = 2 do local x = " \o u \o " ext1(x) end",
  "local x = 2 local x = function() return " \o u \o " end ext1(x())",
  "local x = 2 local function h() local x = " \o u \o " return x end ext1(h())",
  "local x = 2 local function h(y) local x, y = y, " \o u \o " return x, y end ext1(h(5))" }
SelfShapes == {
  \* a local mentioned ONLY as the root of a function STATEMENT name (`function g()`, `function M.f()`, `function C:m()`), inside the
  \* function value of the next declaration / inside its own body: a use like any other for the rules that merge or convert
  "local function g() ext1(1) function g() return ext1(2) end return 0 end ext1(g()) ext1(g())",
  "local g local function h() function g() return ext1(2) end end h() ext1(g())",
  "local M = {} local install = function() function M.helper() return ext1(1) end end install() ext1(M.helper())",
  "local M = {} local k = ext1(3) local install = function() function M.helper() return k end end install() ext1(M.helper())",
  "local C = {} local function define() function C:new() return ext1(self == C) end end define() ext1(C:new())",
  "local C = {v = 1} local D = {} local function define() function C.sub() return D end end define() ext1(C.sub() == D)",
  "local a = 1 local g = function() function a() return ext1(4) end end g() ext1(a())",
  "local x = 2 local function x(n) if n then return 1 end return x(true) end ext1(x())",
  "local x = function() return 5 end local x = function() return x() + 1 end ext1(x())",
  "local o = {v = 1} function o:get(self) return self end ext1(o:get(5))",
  "local o = {v = 1} function o:get(a, self) return self, a end ext1(o:get(5, 6))",
  "local o = {v = 1} function o:get(self) return function() return self end end ext1(o:get(5)())",
  "local o = {v = 1} function o:get() local self = 3 return self end ext1(o:get())",
  "local o = {v = 1} function o:get() return function(self) return self end end ext1(o:get()(7))",
  "local o = {v = 1} function o:get() return function() return self.v end end ext1(o:get()())",
  "local o = {v = 1} function o.get(self) return self.v end ext1(o:get())",
  "local o = {v = 1} function o.get(self, self2) return self2 end ext1(o:get(8))",
  "local self = 4 local o = {v = 1} function o:get() return self.v end ext1(o:get(), self)",
  "local self = 4 local o = {v = 1} function o.get() return self end ext1(o.get())",
  "local o = {v = 1, p = {v = 2}} function o.p:get(...) local self2 = self return self2.v, ... end ext1(o.p:get(9))",
  "local x, y = 1, 2 local y, x = x, y ext1(x, y)",
  \* a KEPT name (local function, include_functions = false) declared in a scope that closes, the same name declared again
  \* later, then more new locals than the closed scopes freed short names: none of them may take the kept name
  "local function outer() local function hf(n) return n * 2 end return hf(2) end ext1(outer()) local function hf(n) return n + 1 end local p = hf(1) local q = hf(p) local r = hf(q) local s = hf(r) ext1(hf(s), p, q, r)",
  "do local function hf() return 1 end ext1(hf()) end do local function hg() return 2 end ext1(hg()) end local function hf(n) return n + 1 end local function hg(n) return n + 2 end local p = hf(1) local q = hg(p) local r = hf(q) ext1(hg(r), p, q)",
  "local function hf(n) if n > 0 then local function hf2() return 1 end return hf2() end return 0 end local function hf2(n) return n end local p = hf2(1) local q = hf(p) local r = hf2(q) ext1(hf(r), hf2(p), q)",
  \* one declaration repeating a name: the LAST one is visible (rules that rebuild the declaration must keep it so)
  "local a, b, a = ext1(1), 2 ext1(a)",
  "local a, b, a = ext1(1), 2, 3 ext1(a)",
  "local a, b, a = ext1(1), ext1(2), ext1(3) ext1(a)",
  "local a, a = ext1(1) ext1(a)",
  "local a, b, a = ext2() ext1(a)",
  "local a, u, a, v = 1, ext1(2), 3 ext1(a, v)",
  \* the placeholder name `_` used by the program itself while a rule keeps side effects in `local _ = ...`
  "local _ = 5 local u = t.x ext1(_)",
  "local _ = 5 local u, v = t.x, ext1(1) ext1(_)",
  "local function g(_) local u = t.x return _ end ext1(g(6))",
  "for _ = 1, 1 do local u = t .. 1 ext1(_) end",
  "local _ = ext1(1) do local u = t.x end ext1(_)",
  "local x = 1 local function g() return x end local function h(x) return g() + x end ext1(h(5))",
  "local x = 1 local function g() x = x + 1 return x end local x = g() ext1(x, g())" }
ScopeShapes(tier) == UNION {BinderShapes(u) : u \in OuterUses(tier)} \cup SelfShapes

\* ---- shadow shapes: a GLOBAL name that a rule watches (math of convert_square_root_call, assert / debug of the removal
\* rules, the injected identifier and _G of inject_global_value) shadowed by every binder kind -- and, above all, used again
\* AFTER an inner scope that re-declared it has closed (the outer declaration is visible again, or the global is).  g = the
\* name, m1 / m2 = two mock values that log when used, u = a statement that uses the name the way the rule looks for it.
Shadow(g, m1, m2, u) == {
  "local " \o g \o " = " \o m1 \o " " \o u,
  "local " \o g \o " = " \o m1 \o " do local " \o g \o " = " \o m2 \o " " \o u \o " end " \o u,
  "do local " \o g \o " = " \o m1 \o " " \o u \o " end " \o u,
  "local function h(" \o g \o ") " \o u \o " end h(" \o m1 \o ") " \o u,
  "local " \o g \o " = " \o m1 \o " local function h(" \o g \o ") return 1 end ext1(h(2)) " \o u,
  "local " \o g \o " = " \o m1 \o " local h = function(...) local " \o g \o " = ... return 1 end ext1(h(3)) " \o u,
  "local " \o g \o " = " \o m1 \o " for " \o g \o " = 1, 1 do end " \o u,
  "for " \o g \o " = 1, 1 do end " \o u,
  It \o "local " \o g \o " = " \o m1 \o " for " \o g \o " in it, 1, 0 do end " \o u,
  "local " \o g \o " = " \o m1 \o " local function h() " \o u \o " end h()",
  "local function h() local " \o g \o " = " \o m1 \o " " \o u \o " end h() " \o u,
  "if true then local " \o g \o " = " \o m1 \o " " \o u \o " end " \o u,
  "local " \o g \o " = " \o m1 \o " if true then local " \o g \o " = " \o m2 \o " end " \o u,
  "local " \o g \o " = " \o m1 \o " while true do local " \o g \o " = " \o m2 \o " break end " \o u,
  "local " \o g \o " = " \o m1 \o " repeat local " \o g \o " = " \o m2 \o " until true " \o u,
  "local " \o g \o " = " \o m1 \o " do do local " \o g \o " = " \o m2 \o " end " \o u \o " end",
  "local " \o g \o " = " \o m1 \o " do local " \o g \o " = " \o m2 \o " end do " \o u \o " end",
  "local o = {} function o:m(" \o g \o ") return 1 end local " \o g \o " = " \o m1 \o " " \o u,
  "local " \o g \o " = " \o m1 \o " local o = {} function o:m(" \o g \o ") return 1 end " \o u,
  "local " \o g \o " " \o g \o " = " \o m1 \o " " \o u,
  \* the caching idiom `local g = g`, re-assigned later
  "local " \o g \o " = " \o g \o " " \o g \o " = " \o m1 \o " " \o u,
  "local " \o g \o " = " \o g \o " if ext1(0) then " \o g \o " = " \o m1 \o " end " \o u,
  "local " \o g \o " = " \o g \o " local function h() " \o g \o " = " \o m1 \o " end h() " \o u }
\* the HEADER of a generic / numeric for is evaluated OUTSIDE the scope of the loop variables: a watched global used there
\* is the global even when a loop variable has its name (and the outer local when one shadows it)
Once == "local function once(a) ext1(\"hdr\", a) return function() return nil end end "
ShadowHeader(g, m1, ue) == {
  Once \o "for " \o g \o " in once(" \o ue \o ") do ext1(0) end",
  Once \o "for k, " \o g \o " in once(" \o ue \o ") do ext1(0) end",
  Once \o "local " \o g \o " = " \o m1 \o " for " \o g \o " in once(" \o ue \o ") do ext1(0) end",
  Once \o "for " \o g \o " in once(" \o ue \o "), once(" \o ue \o ") do ext1(0) end ext1(" \o ue \o ")",
  Once \o "for " \o g \o " = 1, 0 do ext1(0) end for k in once(" \o ue \o ") do end" }
\* ... and a use reached WITHOUT any statement between the binding and the use: the value of a `return` that directly
\* follows the binding (function parameters, loop variables and `local` are bound after the enclosing statement was seen)
ShadowReturn(g, m1, ue) == {
  "local function h(" \o g \o ") return " \o ue \o " end ext1(h(" \o m1 \o "))",
  "local h = function(" \o g \o ") return " \o ue \o " end ext1(h(" \o m1 \o "))",
  "local h h = function(" \o g \o ", ...) return " \o ue \o ", ... end ext1(h(" \o m1 \o ", 5))",
  "local o = {} function o.m(" \o g \o ") return " \o ue \o " end ext1(o.m(" \o m1 \o "))",
  "local " \o g \o " = " \o m1 \o " return " \o ue,
  "local " \o g \o " = " \o m1 \o " return (function() return " \o ue \o " end)()",
  "local " \o g \o " = " \o m1 \o " local h = function() return " \o ue \o " end ext1(h())",
  "for " \o g \o " = 1, 1 do return " \o ue \o " end",
  "local function h(a) return function(" \o g \o ") return " \o ue \o " end end ext1(h(1)(" \o m1 \o "))",
  "do local " \o g \o " = " \o m1 \o " end return " \o ue,
  "local function h(" \o g \o ") return 1 end return " \o ue }
FloorMock == "{floor = function(x) ext1(\"mock\", x) return 7 end}"
FloorMock2 == "{floor = function(x) return 8 end}"
TostrMock == "function(x) ext1(\"mock\", x) return \"m\" end"
TostrMock2 == "function(x) return \"n\" end"
StringMock == "{format = function(...) ext1(\"mock\", ...) return \"m\" end}"
StringMock2 == "{format = function(...) return \"n\" end}"
MathMock == "{sqrt = function(x) ext1(x) return 7 end}"
MathMock2 == "{sqrt = function(x) return 8 end}"
AssertMock == "function(...) ext1(\"mock\", ...) return 9 end"
AssertMock2 == "function(...) return 8 end"
DebugMock == "{profilebegin = function(x) ext1(\"mock\", x) end, profileend = function() ext1(\"mockend\") end}"
DebugMock2 == "{profilebegin = function() end, profileend = function() end}"
GMock == "{INJ = ext1(7), assert = function(...) ext1(\"mock\", ...) end}"
GMock2 == "{INJ = 8, assert = function() end}"
ShadowShapes(group) ==
  IF group = "c06" THEN
         Shadow("math", FloorMock, FloorMock2, "ext1(7 // 2)") \cup ShadowHeader("math", FloorMock, "7 // 2") \cup ShadowReturn("math", FloorMock, "7 // 2")
    \cup Shadow("tostring", TostrMock, TostrMock2, "ext1(`a{ext1(1)}b`)") \cup ShadowHeader("tostring", TostrMock, "`a{1}b`") \cup ShadowReturn("tostring", TostrMock, "`a{1}b`")
    \cup Shadow("string", StringMock, StringMock2, "ext1(`a{ext1(1)}b`)") \cup ShadowHeader("string", StringMock, "`a{1}b`") \cup ShadowReturn("string", StringMock, "`a{1}b`")
  ELSE IF group = "c16" THEN Shadow("math", MathMock, MathMock2, "ext1(math.sqrt(16))") \cup ShadowHeader("math", MathMock, "math.sqrt(16)")
    \cup ShadowReturn("math", MathMock, "math.sqrt(16)")
  ELSE IF group = "c17" THEN
         Shadow("assert", AssertMock, AssertMock2, "assert(extf(), ext1(2))")
    \cup Shadow("debug", DebugMock, DebugMock2, "debug.profilebegin(ext1(1)) debug.profileend()")
    \cup Shadow("INJ", "ext1(7)", "8", "ext1(INJ)")
    \cup Shadow("INJ", "ext1(7)", "8", "ext1(_G.INJ)")
    \cup Shadow("INJ", "ext1(7)", "8", "ext1(_G[\"INJ\"])")
    \cup Shadow("_G", GMock, GMock2, "ext1(_G.INJ)")
    \cup Shadow("_G", GMock, GMock2, "ext1(_G[\"INJ\"])")
    \cup ShadowHeader("assert", AssertMock, "assert(extf(), 3)") \cup ShadowHeader("INJ", "ext1(7)", "INJ") \cup ShadowHeader("INJ", "ext1(7)", "_G.INJ")
    \cup ShadowHeader("_G", GMock, "_G.INJ") \cup ShadowHeader("_G", GMock, "_G[\"INJ\"]")
    \cup ShadowReturn("assert", AssertMock, "assert(extf(), 3)") \cup ShadowReturn("INJ", "ext1(7)", "INJ") \cup ShadowReturn("INJ", "ext1(7)", "_G.INJ")
    \cup ShadowReturn("_G", GMock, "_G.INJ")
    \cup Shadow("_G", GMock, GMock2, "_G.assert(ext1(3))")     \* aliases of the global are outside the rule: the argument is truthy
  ELSE {}

\* ---- nested blocks: wrappers that the default rules peel off (do, `if true`, an unknown condition) around a block that
\* ends -- or does not end -- with a last statement (return / break / continue), at depth 1..3, alone and inside loops.
\* remove_empty_do, remove_unused_if_branch, filter_after_early_return and remove_unused_while must keep every last statement.
BlockWraps == << <<"do ", " end">>, <<"if true then ", " end">>, <<"if ext1(9) then ", " end">>, <<"do do end ", " end">>, <<"if false then ext1(8) else ", " end">> >>
W(k, x) == BlockWraps[k][1] \o x \o BlockWraps[k][2]
\* (a block that only DECLARES something keeps its scope: `local function ext1` / `local ext1` must not reach the code after it)
BlockLeaves == {"return ext1(1)", "return", "ext1(1)", "", "local u = ext1(1)", "do end", "local function ext1() end", "local ext1 = nil", "local function ext1() end ext1()"}
NestedBlocks(tier) ==
     {W(i, l) \o " ext1(2) return ext1(3)" : i \in 1..Len(BlockWraps), l \in BlockLeaves}
\cup {W(i, W(j, l)) \o " ext1(2) return ext1(3)" : i \in 1..Len(BlockWraps), j \in 1..Len(BlockWraps), l \in BlockLeaves}
\cup {W(i, W(j, W(k, l))) \o " ext1(2)" : i \in {1, 2}, j \in {1, 2, 4}, k \in {1, 2}, l \in {"return ext1(1)", "return", ""}}
\cup {"ext1(0) " \o W(i, W(j, "")) \o " " \o W(j, W(i, "return ext1(1)")) \o " ext1(2)" : i \in 1..3, j \in 1..3}
\cup {"for i = 1, 3 do ext1(i) " \o W(i, W(j, l)) \o " ext1(i, 5) end ext1(6)" : i \in {1, 2, 3}, j \in {1, 2, 4}, l \in {"break", "continue", "return ext1(1)", ""}}
\cup {"local n = 0 while true do n = n + 1 ext1(n) " \o W(i, W(j, "break")) \o " end ext1(6)" : i \in {1, 2}, j \in {1, 2, 4}}
\cup {"local n = 0 repeat n = n + 1 " \o W(i, W(j, l)) \o " ext1(n) until n >= 2 ext1(6)" : i \in {1, 2}, j \in {1, 2}, l \in {"break", "continue", ""}}
\cup {"local function g() " \o W(i, W(j, "return ext1(1), ext1(2)")) \o " end ext1(g())" : i \in 1..Len(BlockWraps), j \in 1..Len(BlockWraps)}

Family(name, tier) ==
  CASE name = "unused"   -> UnusedLocals(tier)
    [] name = "removed"  -> RemovedCalls(tier)
    [] name = "compound" -> CompoundTargets(tier)
    [] name = "method"   -> MethodCalls(tier)
    [] name = "ifexpr"   -> IfExprs(tier)
    [] name = "scope"    -> ScopeShapes(tier)
    [] name = "blocks"   -> NestedBlocks(tier)
    [] name = "shadow06" -> ShadowShapes("c06")
    [] name = "shadow16" -> ShadowShapes("c16")
    [] name = "shadow17" -> ShadowShapes("c17")
    [] OTHER -> {}
\* which families belong to which group of properties (the rules of the group act on these shapes)
FamiliesOf(group) ==
  CASE group = "c01" -> {"unused", "ifexpr", "scope", "blocks"}  \* default rules: unused variables, static evaluation of if-expressions, scope tracking
    [] group = "c06" -> {"compound", "ifexpr", "shadow06"}         \* lowering rules
    [] group = "c16" -> {"unused", "method", "scope", "shadow16"}  \* group_local_assignment, remove_nil_declaration, remove_method_call, local function conversions
    [] group = "c17" -> {"removed", "shadow17"}                    \* remove_assertions, remove_debug_profiling
    [] OTHER -> {}
=============================================================================
