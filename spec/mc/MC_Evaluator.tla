----------------------------- MODULE MC_Evaluator -----------------------------
(* G of C08: enumerates the expression language of spec/darklua/Evaluator.tla for the tier named by  *)
(* the environment variable TIER (quick | thorough) and prints                                       *)
(*    UNIVERSE {json}   once: the concretisation universe the harness must spell into the templates   *)
(*    CASE {json}       per expression: expr (text), depth, shape, ux/uy/uv (opaque names occurring)  *)
(* The cases 1..Total are walked as W stride chains (one initial state each) so that the workers      *)
(* share them; a case is decoded from its number (Evaluator!CaseAt), no large set is ever built.      *)
EXTENDS Evaluator, IOUtils, TLC, LuaStr
Tier == IF "TIER" \in DOMAIN IOEnv THEN IOEnv.TIER ELSE "quick"
W == 16
Fams == Families(Tier)
Off == Offsets(Fams)
N == Total(Fams)
VARIABLE i
Case(k) == CaseAt(Fams, Off, k)
Emit(k) == EmitLine("CASE " \o JsonOf(Case(k)))
Header == EmitLine("UNIVERSE " \o JsonOf([values |-> Universe, vararg |-> VarargText, choices |-> Len(VarargChoice), n |-> N, tier |-> Tier]))
Init == /\ i \in 1..W
        /\ i = 1 => Header
        /\ i <= N => Emit(i)
Next == /\ i + W <= N
        /\ i' = i + W
        /\ Emit(i + W)
\* every case is a well-formed request: non-empty text, flags in 0..1, depth in 0..3
TypeOk == i <= N => LET c == Case(i) IN c.expr # "" /\ c.depth \in 0..3 /\ {c.ux, c.uy, c.uv} \subseteq {0, 1}
=============================================================================
