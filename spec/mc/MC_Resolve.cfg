INIT Init
NEXT Next
INVARIANT EmitCase
INVARIANT ConvertReport
INVARIANT UncheckedReport
