SPECIFICATION Spec
VIEW View
INVARIANT BindingPreserved
INVARIANT Emit
