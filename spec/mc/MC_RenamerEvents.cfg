SPECIFICATION SpecEvents
VIEW View
INVARIANT BindingPreserved
