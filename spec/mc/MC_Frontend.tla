---------------------------- MODULE MC_Frontend ----------------------------
(* Bounded instance of Frontend for exhaustive checking (C10) and behaviour generation. *)
EXTENDS FrontendInstance

\* history variables (hidden from the state fingerprint by VIEW): the actions taken so far, the initial
\* configuration, and whether the trigger of the open finding F-C10-e has occurred
VARIABLES hist, cfg0, tainted
HInit == Init /\ hist = <<>> /\ cfg0 = cfg /\ tainted = FALSE
Rec(ev, f, v) == [ev |-> ev, f |-> f, d |-> f, c |-> f, v |-> v]
\* F-C10-e trigger: a file is created while a processed source that requires it is in its error state
Trigger(f) == \E i \in Idx : Live(i) /\ slots[i].st = "err" /\ f \in ReachOf(inp', slots[i].p)      \* evaluated within Add(f): inp' holds the new file
\* F-C10-f trigger: a directory is removed while a work item OUTSIDE it depends on one of its files
Trigger2(d) == \E i \in Idx : Live(i) /\ DirOf[slots[i].p] # d /\ \E f \in Files : DirOf[f] = d /\ i \in extmap[f]
HNext ==
  \/ \E f \in Files : Edit(f) /\ hist' = Append(hist, Rec("edit", f, inp'[f])) /\ UNCHANGED <<cfg0, tainted>>
  \/ \E f \in Files : Add(f) /\ hist' = Append(hist, Rec("add", f, inp'[f])) /\ tainted' = (tainted \/ Trigger(f)) /\ UNCHANGED cfg0
  \/ \E f \in Files : RemoveFile(f) /\ hist' = Append(hist, Rec("rmfile", f, 0)) /\ UNCHANGED <<cfg0, tainted>>
  \/ \E d \in Dirs : RemoveDir(d) /\ hist' = Append(hist, Rec("rmdir", d, 0)) /\ tainted' = (tainted \/ Trigger2(d)) /\ UNCHANGED cfg0
  \/ ChangeConfig /\ hist' = Append(hist, Rec("config", cfg', 0)) /\ UNCHANGED <<cfg0, tainted>>
  \/ Process /\ hist' = Append(hist, Rec("process", "", 0)) /\ UNCHANGED <<cfg0, tainted>>
HSpec == HInit /\ [][HNext]_<<vars, hist, cfg0, tainted>>
View == vars
\* with the flags of the open findings on, behaviours are cut at the finding's trigger: everything else must satisfy C10
NotTainted == ~tainted

\* S->I: print one behaviour per distinct state just reached by Process (the BFS-shortest history to it)
\* the output location AS TYPED by the user: all spellings name the same directory, so every behaviour must be the same
\* whichever is used (the choice is a function of the history: each behaviour is replayed under one spelling)
OutSpellings == <<"out", "./out", "lib/../out">>
OutSp == OutSpellings[((Len(hist) + Cardinality({k \in 1..Len(hist) : hist[k].ev \in {"add", "edit"}})) % Len(OutSpellings)) + 1]
EmitHistory == (fresh /\ hist # <<>> /\ hist[Len(hist)].ev = "process") => PrintT("HIST " \o ToJson([c0 |-> cfg0, events |-> hist, outsp |-> OutSp]))
=============================================================================
