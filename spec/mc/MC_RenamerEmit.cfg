SPECIFICATION Spec
INVARIANT BindingPreserved
INVARIANT Emit
