----------------------------- MODULE MC_Literals -----------------------------
(* Enumerates the literals C13 quantifies over, model-checks Literals!RoundTrip on the        *)
(* transcribed string writer for every enumerated byte string, and prints every literal as a  *)
(* CASE line (replayed through the real generators by `dlv literals`).                        *)
(* Byte strings (family, split by first byte / index so that TLC's workers share the work):   *)
(*   len2     ALL byte strings of length <= 2                                      (65 793)   *)
(*   ctl      every byte 0..255 followed by a digit, by a digit and a letter, and preceded    *)
(*            by a letter                                                                     *)
(*   quotes   all words of length <= 4 over single quote, double quote, backslash, LF, a       *)
(*   utf8     valid multi-byte sequences (2, 3, 4 bytes; first/last code point of each range, *)
(*            surrogate neighbours), truncated / overlong / out-of-range sequences, each      *)
(*            alone, followed by a digit, and between letters                                 *)
(*   thresh   lengths 18..22 and 58..62 of plain text; with 5, 6, 7 line feeds; leading LF,   *)
(*            CR, CRLF; with a control / non-ASCII byte (forces quoting)                      *)
(*   brackets padding to lengths around both thresholds x infix in {none, ]], ]=], ]==]}      *)
(*            x every suffix of length <= 3 over  ] = [                                        *)
(* Doubles (family nums): see Doubles below.                                                  *)
(* Environment: FAMS = subset selector (a family name, or "all").                             *)
EXTENDS Literals, IEEE754, LuaStr, FiniteSets, IOUtils
Which == IF "FAMS" \in DOMAIN IOEnv THEN IOEnv.FAMS ELSE "all"
On(f) == Which = "all" \/ Which = f
Pad(c, n) == [k \in 1..n |-> c]
Words(A, n) == UNION {[1..k -> A] : k \in 0..n}
\* ---- byte strings by family and partition key
Len2(key) == IF key = 256 THEN {<<>>} ELSE {<<key>>} \cup {<<key, b>> : b \in 0..255}
Ctl(key) == IF key > 255 THEN {} ELSE {<<key, 48>>, <<key, 57>>, <<key, 49, 97>>, <<97, key>>, <<97, key, 53, 53, 53>>, <<key, key, 48>>}
Quotes(key) == IF key # 0 THEN {} ELSE Words({39, 34, 92, 10, 97}, 4)
Utf8Seqs == { <<194, 128>>, <<195, 169>>, <<223, 191>>, <<224, 160, 128>>, <<226, 130, 172>>, <<237, 159, 191>>, <<238, 128, 128>>, <<239, 191, 191>>,
              <<240, 144, 128, 128>>, <<240, 159, 152, 128>>, <<244, 143, 191, 191>>,
              \* invalid: lone continuation, truncated, overlong, surrogates, > U+10FFFF, 0xFE/0xFF
              <<128>>, <<191>>, <<195>>, <<226, 130>>, <<240, 159, 152>>, <<192, 128>>, <<193, 191>>, <<224, 128, 128>>, <<224, 159, 191>>,
              <<237, 160, 128>>, <<237, 191, 191>>, <<240, 128, 128, 128>>, <<240, 143, 191, 191>>, <<244, 144, 128, 128>>, <<245, 128, 128, 128>>,
              <<254>>, <<255>>, <<255, 254>>, <<195, 40>>, <<195, 169, 195>> }
Utf8Fam(key) == IF key # 0 THEN {} ELSE UNION {{u, u \o <<48>>, <<97>> \o u \o <<98>>, <<1>> \o u, u \o <<1, 50>>, u \o u, <<39>> \o u \o <<34>>,
                                               Pad(120, 60) \o u, u \o <<196, 176>>, <<1>> \o u \o <<196, 176>>} : u \in Utf8Seqs}
ThreshLens == {18, 19, 20, 21, 22, 58, 59, 60, 61, 62}
Thresh(key) == IF key # 0 THEN {} ELSE
  UNION {{Pad(120, n), Pad(120, n - 1) \o <<32>>, <<10>> \o Pad(120, n - 1), <<13>> \o Pad(120, n - 1), <<13, 10>> \o Pad(120, n - 2),
          <<10, 10>> \o Pad(120, n - 2), Pad(120, n - 1) \o <<10>>,
          Pad(120, n - 1) \o <<1>>, Pad(120, n - 1) \o <<9>>, Pad(120, n - 2) \o <<195, 169>>, Pad(120, n - 1) \o <<255>>, Pad(120, n - 1) \o <<39>>,
          Pad(120, n - 2) \o <<39, 34>>, Pad(120, n - 1) \o <<92>>, Pad(120, n - 1) \o <<127>>, <<45, 45>> \o Pad(120, n - 2), <<45, 45, 91, 91>> \o Pad(120, n - 4),
          Pad(120, n - 5) \o Pad(10, 5), Pad(120, n - 6) \o Pad(10, 6), Pad(120, n - 7) \o Pad(10, 7), Pad(10, n), <<120, 10>> \o Pad(120, n - 8) \o Pad(10, 5) \o <<120>>}
         : n \in ThreshLens}
Infixes == {<<>>, <<93, 93>>, <<93, 61, 93>>, <<93, 61, 61, 93>>}
Brackets(key) == IF key # 0 THEN {} ELSE
  {Pad(120, n) \o inf \o Pad(121, 3) \o suf : n \in {10, 13, 16, 52, 55, 58}, inf \in Infixes, suf \in Words({93, 61, 91}, 3)}
  \cup {suf \o Pad(120, 60) : suf \in Words({93, 61, 91, 10}, 2)}
StrFams == {"len2", "ctl", "quotes", "utf8", "thresh", "brackets"}
StrMembers(f, key) ==
  CASE f = "len2" -> Len2(key) [] f = "ctl" -> Ctl(key) [] f = "quotes" -> Quotes(key) [] f = "utf8" -> Utf8Fam(key)
    [] f = "thresh" -> Thresh(key) [] f = "brackets" -> Brackets(key)

\* ---- doubles: <<hi, lo>> word pairs
D(txt) == FOfDecimal(txt)
Digits10(n) == IF n < 10 THEN <<48 + n>> ELSE IF n < 100 THEN <<48 + (n \div 10), 48 + (n % 10)>> ELSE <<48 + (n \div 100), 48 + ((n \div 10) % 10), 48 + (n % 10)>>
Pow10(k) == D(StrOf(<<49, 101>> \o (IF k < 0 THEN <<45>> \o Digits10(0 - k) ELSE Digits10(k))))
Pow2(k) == <<(k + 1023) * 1048576, 0>>                      \* normal powers of two, k in -1022..1023
MinInt == -2147483647 - 1
Hard == { D("0.1"), D("0.2"), D("0.3"), D("0.30000000000000004"), FDiv(FOfInt(1), FOfInt(3)), FDiv(FOfInt(2), FOfInt(3)), D("123456789012345680"),
          D("1e21"), D("1e22"), D("1e23"), D("8.41e21"), D("9.5e-5"), D("5e-5"), D("0.000001"), D("1e-7"), D("4.35"), D("0.57"), D("2.675"),
          D("2.2250738585072014e-308"), D("2.2250738585072011e-308"), D("1.0000000000000002"), D("0.9999999999999999"), D("4503599627370496.5"),
          D("9007199254740991"), D("9007199254740992"), D("9007199254740994"), D("9007199254740996"), D("4503599627370497"), D("6.02214076e23"),
          D("299792458"), D("3.141592653589793"), D("2.718281828459045"), D("1e15"), D("1e16"), D("1e17"), D("123456789.12345679"),
          D("5e-324"), D("1e-323"), D("1.7976931348623157e308"), D("8.98846567431158e307"), D("1.5"), D("255"), D("65535.5"), D("100"), D("1000"),
          D("99999999999999990000"), D("0.09999999999999999"), D("999"), D("1e3"), D("12300"), D("0.5"), D("0.25"), D("1e100"), D("1.23e-100"),
          D("2.5e-8"), D("7.0385795e-26"), D("1.8446744073709552e19"), D("4294967296"), D("4294967295"), D("2147483648") }
Special == { <<0, 0>>, <<MinInt, 0>>, <<0, 1>>, <<0, 2>>, <<1048575, -1>>, <<1048576, 0>>, <<1048576, 1>>, <<2146435071, -1>>,
             <<2146435072, 0>>, <<-1048576, 0>>, <<2146959360, 0>>, <<1072693248, 0>>, <<1072693248, 1>>, <<1072693247, -1>> }
Neg(S) == {FNeg(d) : d \in S}
NumKeys == 0..7
Doubles(key) ==
  CASE key = 0 -> Special \cup Hard \cup Neg(Hard)
    [] key = 1 -> {Pow10(k) : k \in -323..-160}
    [] key = 2 -> {Pow10(k) : k \in -159..0}
    [] key = 3 -> {Pow10(k) : k \in 1..150}
    [] key = 4 -> {Pow10(k) : k \in 151..308}
    [] key = 5 -> {Pow2(k) : k \in -1022..0} \cup {<<0, v>> : v \in {4, 8, 1024, 1048576, 1073741824}} \cup {<<v, 0>> : v \in {1, 2, 1024, 524288}}
    [] key = 6 -> {Pow2(k) : k \in 1..1023}
    [] key = 7 -> Neg({Pow10(k) : k \in {-323, -100, -7, -5, -4, -1, 0, 1, 5, 15, 16, 21, 22, 100, 308}}) \cup Neg({Pow2(k) : k \in {-1022, -1, 0, 1, 52, 53, 63, 64, 1023}})
\* numbers with a recorded exponent (DecimalNumber::with_exponent) and hex / binary nodes
Exponents == {-400, -324, -308, -10, -3, -1, 0, 1, 2, 3, 10, 22, 308, 400}
ExpBases == { D("0"), <<MinInt, 0>>, D("1"), D("1.5"), D("12345"), D("0.001"), D("1e300"), D("1e-300"), D("5e-324"), D("1.7976931348623157e308"), D("123456789012345680"),
              D("0.1"), FDiv(FOfInt(1), FOfInt(3)), D("-2.5"), D("1e22"), D("1000") }
Ints == <<"0", "1", "9", "10", "15", "16", "255", "256", "65535", "4294967295", "4294967296", "9007199254740992", "9007199254740993", "9007199254740995",
          "9223372036854775807", "9223372036854775808", "18446744073709549568", "18446744073709551615", "18446744073709551614", "1311768467463790320", "81985529216486895">>

\* ---- SOURCE spellings of strings (family srcstr): what darklua's READER makes of a literal written in the source.  A value
\* the writer then renders faithfully is only as good as the value that was read: every escape of Lua 5.1 / Luau, in both
\* quoting forms, followed and preceded by neighbours that change its extent (`\065` + digit, `\z` + each kind of white space,
\* incl. the vertical tab and form feed C's isspace accepts and the Unicode spaces it does not), and long brackets.
Bs(t) == BytesOf(t)
SimpleEsc == {Bs("\\a"), Bs("\\b"), Bs("\\f"), Bs("\\n"), Bs("\\r"), Bs("\\t"), Bs("\\v"), Bs("\\\\"), Bs("\\\""), Bs("\\'")}
LineCont == {<<92, 10>>, <<92, 13>>, <<92, 13, 10>>}
DecEsc == {Bs("\\0"), Bs("\\00"), Bs("\\000"), Bs("\\7"), Bs("\\65"), Bs("\\065"), Bs("\\255"), Bs("\\2555"), Bs("\\0651"), Bs("\\10"), Bs("\\1a"), Bs("\\001x"), Bs("\\9")}
HexEsc == {Bs("\\x00"), Bs("\\x41"), Bs("\\x7f"), Bs("\\x80"), Bs("\\xff"), Bs("\\xFF"), Bs("\\xfF0"), Bs("\\x410")}
UniEsc == {Bs("\\u{0}"), Bs("\\u{41}"), Bs("\\u{7F}"), Bs("\\u{80}"), Bs("\\u{7ff}"), Bs("\\u{800}"), Bs("\\u{D7FF}"), Bs("\\u{E000}"), Bs("\\u{FFFF}"),
           Bs("\\u{10000}"), Bs("\\u{10FFFF}"), Bs("\\u{000041}"), Bs("\\u{e9}")}
\* white space after \z: none, ASCII (space, TAB, LF, CR, CRLF, VT, FF, mixed), and characters that are NOT white space for Lua
ZSpaces == {<<>>, <<32>>, <<9>>, <<10>>, <<13>>, <<13, 10>>, <<11>>, <<12>>, <<32, 10, 9, 32>>, <<10, 10>>, <<32, 11, 32>>,
            <<194, 160>>, <<194, 133>>, <<227, 128, 128>>, <<226, 128, 168>>, <<32, 194, 160>>, <<10, 227, 128, 128, 32>>, <<225, 154, 128>>, <<226, 128, 175>>}
ZEsc == {<<92, 122>> \o w : w \in ZSpaces}
RawBodies == {<<9>>, <<11>>, <<12>>, <<127>>, <<194, 160>>, <<227, 128, 128>>, <<1>>, <<45, 45>>, <<91, 91>>, <<93, 93>>, <<96>>, <<123>>}
EscBodies == SimpleEsc \cup LineCont \cup DecEsc \cup HexEsc \cup UniEsc \cup ZEsc \cup RawBodies
Quoted == {<<q>> \o pre \o e \o post \o <<q>> : q \in {39, 34}, pre \in {<<>>, <<97>>}, e \in EscBodies, post \in {<<>>, <<98>>, <<49>>}}
          \cup {<<q>> \o e1 \o e2 \o <<q>> : q \in {34}, e1 \in {Bs("\\z "), Bs("\\65"), Bs("\\x41"), <<92, 10>>}, e2 \in SimpleEsc \cup ZEsc \cup DecEsc}
LongForms == {Bs("[[x]]"), <<91, 91, 10, 120, 93, 93>>, <<91, 91, 10, 10, 120, 93, 93>>, Bs("[=[x]]y]=]"), Bs("[==[]==]"), <<91, 91, 97, 10, 98, 93, 93>>,
              Bs("[[ \\n \\z ]]"), Bs("[[--x]]"), Bs("[=[ [[x]] ]=]"), <<91, 61, 91, 10, 93, 93, 93, 61, 93>>, Bs("[[]]"), Bs("[===[ ]==] ]===]")}
SourceSpellings == Quoted \cup LongForms
\* ---- SOURCE spellings of binary / hexadecimal numbers (family numsp): every bit string of 1..9 digits, grouped with
\* underscores, both prefixes; every hexadecimal string of 1..3 digits over a digit alphabet.  The value read must be the value
\* Luau gives the spelling, and what convert_luau_number writes for it (under every generator) must read back as that value.
Bits(n) == [1..n -> {48, 49}]
BinSpell == {<<48, 98>> \o w : w \in UNION {Bits(n) : n \in 1..9}}
       \cup {<<48, 66>> \o w : w \in UNION {Bits(n) : n \in 1..3}}
       \cup {<<48, 98>> \o a \o <<95>> \o b : a \in UNION {Bits(n) : n \in 1..3}, b \in UNION {Bits(n) : n \in 1..3}}
       \cup {<<48, 98>> \o [k \in 1..n |-> IF k = 1 THEN 49 ELSE 48] : n \in 10..20}
       \cup {<<48, 98>> \o [k \in 1..n |-> IF k % 3 = 1 THEN 49 ELSE 48] : n \in 10..20}
HexDigs == {48, 49, 57, 97, 102, 65, 70}
HexSpell == {<<48, 120>> \o w : w \in UNION {[1..n -> HexDigs] : n \in 1..3}} \cup {<<48, 88>> \o w : w \in [1..2 -> HexDigs]}
NumberSpellings == BinSpell \cup HexSpell

VARIABLES kind, fam, key, s, d, aux
vars == <<kind, fam, key, s, d, aux>>
Init ==
  \/ /\ kind = "strseed" /\ fam \in {f \in StrFams : On(f)} /\ key \in (IF fam = "len2" THEN 0..256 ELSE IF fam = "ctl" THEN 0..255 ELSE {0})
     /\ s = <<>> /\ d = <<0, 0>> /\ aux = <<0, 0>>
  \/ /\ kind = "numseed" /\ On("nums") /\ fam = "nums" /\ key \in NumKeys /\ s = <<>> /\ d = <<0, 0>> /\ aux = <<0, 0>>
  \/ /\ kind = "expseed" /\ On("nums") /\ fam = "exp" /\ key \in {0} /\ s = <<>> /\ d = <<0, 0>> /\ aux = <<0, 0>>
  \/ /\ kind = "intseed" /\ On("nums") /\ fam = "ints" /\ key \in {0} /\ s = <<>> /\ d = <<0, 0>> /\ aux = <<0, 0>>
  \/ /\ kind = "srcseed" /\ On("srcstr") /\ fam = "srcstr" /\ key \in {0} /\ s = <<>> /\ d = <<0, 0>> /\ aux = <<0, 0>>
Next ==
  \/ kind = "srcseed" /\ kind' = "src" /\ s' \in SourceSpellings /\ UNCHANGED <<fam, key, d, aux>>
  \/ kind = "srcseed" /\ kind' = "numsp" /\ s' \in NumberSpellings /\ UNCHANGED <<fam, key, d, aux>>
  \/ kind = "strseed" /\ kind' = "str" /\ s' \in StrMembers(fam, key) /\ UNCHANGED <<fam, key, d, aux>>
  \/ kind = "numseed" /\ kind' = "num" /\ d' \in Doubles(key) /\ UNCHANGED <<fam, key, s, aux>>
  \/ kind = "expseed" /\ kind' = "nume" /\ d' \in ExpBases /\ aux' \in Exponents \X {0, 1} /\ UNCHANGED <<fam, key, s>>
  \/ kind = "intseed" /\ kind' = "int" /\ aux' \in (1..Len(Ints)) \X {0, 1, 2, 3} /\ UNCHANGED <<fam, key, s, d>>
\* the design theorem, with the open finding as a named exemption
RoundTripOrKnown == kind # "str" \/ RoundTrip(s) \/ (DevLongBracket /\ Trigger_F_C13_a(s))
Emit ==
  CASE kind = "src" -> EmitLine("CASE " \o JsonOf([kind |-> "src", fam |-> fam, b |-> s]))
    [] kind = "numsp" -> EmitLine("CASE " \o JsonOf([kind |-> "parse", fam |-> "spelling", text |-> StrOfBytes(s)]))
    [] kind = "str" -> EmitLine("CASE " \o JsonOf([kind |-> "str", fam |-> fam, b |-> s, rt |-> RoundTrip(s), trig |-> Trigger_F_C13_a(s),
                                                    u |-> NeedsUnicodeEscape(s), long |-> Len(s) >= 2 /\ UsesLongBracket(s), model |-> WriteString(s)]))
    [] kind = "num" -> EmitLine("CASE " \o JsonOf([kind |-> "num", fam |-> fam, hi |-> d[1], lo |-> d[2]]))
    [] kind = "nume" -> EmitLine("CASE " \o JsonOf([kind |-> "nume", fam |-> fam, hi |-> d[1], lo |-> d[2], exp |-> aux[1], upper |-> aux[2] = 1]))
    \* form: 0 = 0x, 1 = 0X, 2 = 0b, 3 = 0B; int = decimal digits of the u64; hi/lo = the double Luau gives the written literal
    [] kind = "int" -> EmitLine("CASE " \o JsonOf([kind |-> "int", fam |-> fam, int |-> Ints[aux[1]], form |-> aux[2],
                                                    hi |-> D(Ints[aux[1]])[1], lo |-> D(Ints[aux[1]])[2]]))
    [] OTHER -> TRUE
=============================================================================
