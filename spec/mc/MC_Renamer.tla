------------------------------ MODULE MC_Renamer ------------------------------
(* Program builder for C09: every sequence of statement-level actions over three names is a Lua program   *)
(* (text) together with its scope events; the reference resolver and the transcription of darklua's name  *)
(* generator run in lockstep.  Used three ways:                                                           *)
(*   - design check (VIEW hides text/events): BindingPreserved for ALL sequences up to MaxN actions        *)
(*   - S->I: every CLOSED program is printed (text + events) and renamed by the real rule                   *)
(*   - TLC -simulate for long random programs                                                              *)
EXTENDS Renamer, Json, IOUtils
MaxN == IF "MAXN" \in DOMAIN IOEnv THEN atoi(IOEnv.MAXN) ELSE 4
EmitOn == "EMIT" \in DOMAIN IOEnv /\ IOEnv.EMIT = "1"
NoPrepass == "DevNoGlobalsPrepass" \in DOMAIN IOEnv /\ IOEnv.DevNoGlobalsPrepass = "1"
Names == {"a", "b", "x"}
Listed == {"u"}                     \* the configured `globals` list

VARIABLES text, evs, st, g, stack, G, kf, n, idx
vars == <<text, evs, st, g, stack, G, kf, n, idx>>
View == <<st, g, stack, G, kf>>

E(e, x, t) == [e |-> e, x |-> x, t |-> t]
\* run a sequence of events through the generator (names darklua writes) and the judge
RECURSIVE RunEvents(_, _, _, _)
RunEvents(s, gg, seq, i) ==
  IF i > Len(seq) THEN [st |-> s, g |-> gg]
  ELSE LET r == GenEvent(gg, seq[i], kf) IN
       RunEvents(JudgeEvent(s, seq[i], r.name, Listed \cup G, kf), r.g, seq, i + 1)
\* globals the file may use: only names of G (the pre-pass result is exact) -- unless the pre-pass is disabled
GlobalOK(x) == Resolve(st.old, x) # 0 \/ x \in G
Do(line, seq, nids, closer, after) ==
  /\ n + Len(stack) + (IF closer = "" THEN 0 ELSE 1) < MaxN      \* room is left to close every open scope
  /\ \A k \in 1..Len(seq) : seq[k].e = "use" => (seq[k].x = "u" \/ seq[k].x = "self" \/ GlobalOK(seq[k].x))
  /\ LET abs == [k \in 1..Len(seq) |-> [seq[k] EXCEPT !.t = IF @ = 0 THEN 0 ELSE idx + @]] IN
     LET r == RunEvents(st, g, abs, 1) IN
     /\ st' = r.st /\ g' = r.g
     /\ evs' = evs \o abs
     /\ stack' = IF closer = "" THEN stack ELSE Append(stack, [closer |-> closer, after |-> [k \in 1..Len(after) |-> [after[k] EXCEPT !.t = idx + @]]])
  /\ text' = text \o line \o "\n"
  /\ idx' = idx + nids
  /\ n' = n + 1
  /\ UNCHANGED <<G, kf>>

Init ==
  /\ text = "" /\ evs = <<>> /\ st = InitJudge /\ stack = <<>> /\ n = 0 /\ idx = 0
  /\ G \in SUBSET {"a", "x", "b"}
  /\ kf \in BOOLEAN
  /\ g = InitGen(Listed \cup (IF NoPrepass THEN {} ELSE G) \cup (IF kf THEN {"b"} ELSE {}))   \* kept function names are avoided from the start

Top == stack[Len(stack)]
Close ==
  /\ stack # <<>> /\ Top.closer = "end"
  /\ LET seq == <<E("pop", "", 0)>> \o Top.after IN
     LET r == RunEvents(st, g, seq, 1) IN st' = r.st /\ g' = r.g /\ evs' = evs \o seq
  /\ text' = text \o "end\n" /\ stack' = SubSeq(stack, 1, Len(stack) - 1) /\ n' = n + 1
  /\ UNCHANGED <<G, kf, idx>>
CloseRepeat(x) ==
  /\ stack # <<>> /\ Top.closer = "until" /\ GlobalOK(x)
  /\ LET seq == <<E("use", x, idx + 1), E("pop", "", 0)>> IN
     LET r == RunEvents(st, g, seq, 1) IN st' = r.st /\ g' = r.g /\ evs' = evs \o seq
  /\ text' = text \o "until " \o x \o "\n" /\ stack' = SubSeq(stack, 1, Len(stack) - 1) /\ n' = n + 1 /\ idx' = idx + 1
  /\ UNCHANGED <<G, kf>>

\* with include_functions = false darklua adds every `local function` name of the file to the avoid set up front;
\* the model reserves the function name "a"/"b"/"x" only when it is declared, so programs declaring local functions
\* are generated with the function name drawn from FnNames, which are in the avoid set from the start when kf
FnNames == {"b"}
Next ==
  \/ \E x \in Names : Do("local " \o x, <<E("decl", x, 1)>>, 1, "", <<>>)
  \/ \E x, y \in Names : Do("local " \o x \o " = " \o y, <<E("use", y, 2), E("decl", x, 1)>>, 2, "", <<>>)
  \/ \E x \in Names : Do("u(" \o x \o ")", <<E("use", "u", 1), E("use", x, 2)>>, 2, "", <<>>)
  \/ \E x \in Names : Do(x \o " = u", <<E("use", x, 1), E("use", "u", 2)>>, 2, "", <<>>)
  \/ \E x \in Names : Do("u(" \o x \o ".a)", <<E("use", "u", 1), E("use", x, 2), E("keep", "a", 3)>>, 3, "", <<>>)
  \* Luau TYPE positions: the namespace of `y.T` is an occurrence of the local y (a require alias); the annotation of a local is
  \* resolved before the local is declared, like its initialiser.  Only declared names are used as namespaces.
  \/ \E x, y \in Names : Resolve(st.old, y) # 0 /\ Do("local " \o x \o ": " \o y \o ".T = u", <<E("use", "u", 4), E("use", y, 2), E("keep", "T", 3), E("decl", x, 1)>>, 4, "", <<>>)
  \/ \E x, y \in Names : Resolve(st.old, y) # 0 /\ Do("u(" \o x \o " :: " \o y \o ".T)", <<E("use", "u", 1), E("use", x, 2), E("use", y, 3), E("keep", "T", 4)>>, 4, "", <<>>)
  \/ \E y \in Names : Resolve(st.old, y) # 0 /\ Do("type T = " \o y \o ".T", <<E("keep", "type", 1), E("keep", "T", 2), E("use", y, 3), E("keep", "T", 4)>>, 4, "", <<>>)   \* `type` is a word, not a keyword
  \* the annotation of a loop variable is resolved OUTSIDE the loop scope (a loop variable named like the namespace does not capture it)
  \/ \E x, y, z \in Names : Resolve(st.old, y) # 0 /\ Do("for " \o x \o ": " \o y \o ".T in " \o z \o " do", <<E("use", z, 4), E("use", y, 2), E("keep", "T", 3), E("push", "", 0), E("decl", x, 1)>>, 4, "end", <<>>)
  \* a type function declares its parameters in its own scope
  \/ \E p \in Names : Do("type function T(" \o p \o ")", <<E("keep", "type", 1), E("keep", "T", 2), E("push", "", 0), E("decl", p, 3)>>, 3, "end", <<>>)
  \/ Do("do", <<E("push", "", 0)>>, 0, "end", <<>>)
  \/ \E f \in FnNames, p \in Names : Do("local function " \o f \o "(" \o p \o ")", <<E("declfn", f, 1), E("push", "", 0), E("decl", p, 2)>>, 2, "end", <<>>)
  \/ \E f, p \in Names : Do("local " \o f \o " = function(" \o p \o ")", <<E("push", "", 0), E("decl", p, 2)>>, 2, "end", <<E("decl", f, 1)>>)
  \/ \E p \in Names : Do("function u:m(" \o p \o ")", <<E("use", "u", 1), E("keep", "m", 2), E("push", "", 0), E("self", "self", 0), E("decl", p, 3)>>, 3, "end", <<>>)
  \/ Do("u(self)", <<E("use", "u", 1), E("use", "self", 2)>>, 2, "", <<>>)
  \* `self` as an ORDINARY name: an explicit parameter or local called self shadows the implicit one (which a method
  \* declares first: `function t:m(p)` is `t.m = function(self, p)`); a dot-function has no implicit self
  \/ Do("function u:m(self)", <<E("use", "u", 1), E("keep", "m", 2), E("push", "", 0), E("self", "self", 0), E("decl", "self", 3)>>, 3, "end", <<>>)
  \/ \E p \in Names : Do("function u:m(" \o p \o ", self)", <<E("use", "u", 1), E("keep", "m", 2), E("push", "", 0), E("self", "self", 0), E("decl", p, 3), E("decl", "self", 4)>>, 4, "end", <<>>)
  \/ Do("function u.m(self)", <<E("use", "u", 1), E("keep", "m", 2), E("push", "", 0), E("decl", "self", 3)>>, 3, "end", <<>>)
  \/ Do("local self = u", <<E("use", "u", 2), E("decl", "self", 1)>>, 2, "", <<>>)
  \/ \E x \in Names : Do("local " \o x \o " = self", <<E("use", "self", 2), E("decl", x, 1)>>, 2, "", <<>>)
  \/ \E x, y \in Names : Do("for " \o x \o " = " \o y \o ", " \o y \o " do", <<E("use", y, 2), E("use", y, 3), E("push", "", 0), E("decl", x, 1)>>, 3, "end", <<>>)
  \/ \E x, y \in Names : Do("for " \o x \o " in " \o y \o " do", <<E("use", y, 2), E("push", "", 0), E("decl", x, 1)>>, 2, "end", <<>>)
  \/ \E x \in Names : Do("while " \o x \o " do", <<E("use", x, 1), E("push", "", 0)>>, 1, "end", <<>>)
  \/ \E x \in Names : Do("if " \o x \o " then", <<E("use", x, 1), E("push", "", 0)>>, 1, "end", <<>>)
  \/ Do("repeat", <<E("push", "", 0)>>, 0, "until", <<>>)
  \/ Close
  \/ \E x \in Names : CloseRepeat(x)
\* event-level alphabet: EVERY well-bracketed sequence of scope events (a superset of what Lua programs produce)
EvDo(seq) ==
  /\ n < MaxN
  /\ \A k \in 1..Len(seq) : seq[k].e = "use" => GlobalOK(seq[k].x)
  /\ (seq[1].e = "pop" => Len(st.old) > 1)
  /\ LET r == RunEvents(st, g, seq, 1) IN st' = r.st /\ g' = r.g
  /\ n' = n + 1
  /\ UNCHANGED <<text, evs, stack, G, kf, idx>>
NextEvents ==
  \/ EvDo(<<E("push", "", 0)>>)
  \/ EvDo(<<E("pop", "", 0)>>)
  \/ \E x \in Names : EvDo(<<E("decl", x, 0)>>)
  \/ EvDo(<<E("declfn", "b", 0)>>)
  \/ \E x \in Names : EvDo(<<E("use", x, 0)>>)
  \/ EvDo(<<E("self", "self", 0)>>)
  \/ EvDo(<<E("use", "self", 0)>>)
  \/ EvDo(<<E("decl", "self", 0)>>)
Spec == Init /\ [][Next]_vars
SpecEvents == Init /\ [][NextEvents]_vars

\* `self` may only be used inside a method; the judge treats an unbound `self` as a global that keeps its name: fine.
BindingPreserved == st.ok
Closed == stack = <<>> /\ n > 0
Emit == (EmitOn /\ Closed) => PrintT("CASE " \o ToJson([text |-> text, events |-> evs, globals |-> G, keep_functions |-> kf, nids |-> idx]))
=============================================================================
