----------------------------- MODULE MC_Config -----------------------------
(* Bounded instance of Config (C19).  Every state is one configuration TEXT:                      *)
(*   - every rule in string and object form x every subset of its properties at default and       *)
(*     non-default sample values x filters {none, apply, skip, both} x {one string, list of two}, *)
(*   - top-level variants (rules / process / absent, generator forms, bundle settings, filters),  *)
(*   - (thorough) pairs of rules in one configuration,                                            *)
(*   - every single-field corruption of representative valid texts.                               *)
(* TLC checks RoundTrip / SerInjective / Strict on the model; counterexamples that fall under a   *)
(* NAMED deviation (an open finding) are printed as DESIGN-* lines and do not stop exploration,   *)
(* any other counterexample violates the invariants below.  Every state is printed as a CASE line *)
(* (the abstract text + the model's expectation) for replay into the real code.                   *)
EXTENDS Config, Json

Thorough == "MODE" \in DOMAIN IOEnv /\ IOEnv["MODE"] = "thorough"

\* ------------------------------------------------------------------------------------------ samples
\* apply: {a} / {a, sub/b}; skip: {sub/b} / {sub/b, a}: six distinct selections over the three probe files
P1 == "src/a.lua"
P2 == "**/b.lua"
K1 == "src/*/b.lua"
K2 == "*/a.lua"
ApplyForms == {<<>>, <<E("apply_to_files", S(P1))>>, <<E("apply_to_files", L(<<P1, P2>>))>>}
               \cup (IF Thorough THEN {<<E("apply_to_files", L(<<P1>>))>>, <<E("apply_to_files", L(<<>>))>>} ELSE {})
SkipForms  == {<<>>, <<E("skip_files", S(K1))>>, <<E("skip_files", L(<<K1, K2>>))>>}
               \cup (IF Thorough THEN {<<E("skip_files", L(<<K1>>))>>} ELSE {})
FilterCombos == {a \o s : a \in ApplyForms, s \in SkipForms}
BothLists == <<E("apply_to_files", L(<<P1, P2>>)), E("skip_files", L(<<K1, K2>>))>>
FewFilters == {<<>>, BothLists}

RECURSIVE Prod(_)
Prod(opts) == IF opts = <<>> THEN {<<>>} ELSE {h \o tl : h \in opts[1], tl \in Prod(Tail(opts))}
Opt(k, vals) == {<<>>} \cup {<<E(k, x)>> : x \in vals}

PathIndex == O(<<"name", "str", "path", "module_folder_name", "str", "index">>)
PathDefaultObj == O(<<"name", "str", "path">>)
PathFull == O(<<"name", "str", "path", "module_folder_name", "str", "index", "sources", "map", "@pkg=./lib2", "use_luau_configuration", "bool", "false">>)
LuauNoRc == O(<<"name", "str", "luau", "use_luau_configuration", "bool", "false">>)
LuauAliases == O(<<"name", "str", "luau", "aliases", "map", "@pkg=./lib2">>)
LuauSources == O(<<"name", "str", "luau", "sources", "map", "@pkg=./lib2">>)

\* property variants of a rule: sequences of entries (every subset of the properties, default and non-default values)
PropVariants(name) ==
  CASE name \in Parameterless -> {<<>>}
  [] name = "append_text_comment" ->
       Prod(<<{<<E("text", S("hello"))>>, <<E("text", S("other"))>>, <<E("file", S("header.txt"))>>},
              Opt("location", {S("start"), S("end")})>>)
  [] name = "inject_global_value" ->
       Prod(<<{<<E("identifier", S("CFG"))>>, <<E("identifier", S("CFG2"))>>},
              {<<>>} \cup {<<E("value", x)>> : x \in {B("true"), B("false"), N("1"), N("1.5"), N("-1"), S("str"), Nul, L(<<"x", "y">>)}}
                    \cup {<<E("env", S("DLV_C19_DEFINED"))>>, <<E("env", S("DLV_C19_UNDEFINED"))>>,
                          <<E("env", S("DLV_C19_UNDEFINED")), E("default_value", N("7"))>>,
                          <<E("env_json", S("DLV_C19_DEFINED"))>>,
                          <<E("env_json", S("DLV_C19_UNDEFINED")), E("default_value", S("d"))>>}>>)
  [] name \in {"remove_assertions", "remove_debug_profiling"} -> Opt("preserve_arguments_side_effects", {B("true"), B("false")})
  [] name = "remove_attribute" -> Opt("match", {L(<<>>), L(<<"native">>), L(<<"native", "^check">>)})
  [] name = "remove_comments" -> Opt("except", {L(<<>>), L(<<"KEEP">>), L(<<"KEEP", "^!">>)})
  [] name = "remove_interpolated_string" -> Opt("strategy", {S("string"), S("tostring")})
  [] name = "rename_variables" ->
       IF Thorough
       THEN Prod(<<Opt("globals", {L(<<>>), L(<<"$default">>), L(<<"$roblox">>), L(<<"c">>), L(<<"zz", "$roblox", "c">>)}),
                   Opt("include_functions", {B("true"), B("false")}), Opt("detect_globals", {B("true"), B("false")})>>)
       ELSE Opt("globals", {L(<<>>), L(<<"$default">>), L(<<"$roblox">>), L(<<"c">>), L(<<"zz", "$roblox", "c">>)})
            \cup Opt("include_functions", {B("true"), B("false")}) \cup Opt("detect_globals", {B("true"), B("false")})
            \cup {<<E("globals", L(<<"c">>)), E("include_functions", B("true")), E("detect_globals", B("false"))>>,
                  <<E("globals", L(<<"$default">>)), E("include_functions", B("false")), E("detect_globals", B("true"))>>}
  [] name = "convert_require" ->
       {<<E("current", x), E("target", y)>> : x \in {S("path"), S("luau"), S("roblox"), PathIndex, PathDefaultObj}, y \in {S("luau"), S("path"), LuauNoRc}}

\* the variant that sets every property to a non-default value (all filter combinations are applied to it in both tiers)
RichVariant(name) ==
  CASE name \in Parameterless -> <<>>
  [] name = "append_text_comment" -> <<E("text", S("hello")), E("location", S("end"))>>
  [] name = "inject_global_value" -> <<E("identifier", S("CFG")), E("env", S("DLV_C19_UNDEFINED")), E("default_value", N("7"))>>
  [] name \in {"remove_assertions", "remove_debug_profiling"} -> <<E("preserve_arguments_side_effects", B("false"))>>
  [] name = "remove_attribute" -> <<E("match", L(<<"native">>))>>
  [] name = "remove_comments" -> <<E("except", L(<<"KEEP">>))>>
  [] name = "remove_interpolated_string" -> <<E("strategy", S("tostring"))>>
  [] name = "rename_variables" -> <<E("globals", L(<<"c">>)), E("include_functions", B("true")), E("detect_globals", B("false"))>>
  [] name = "convert_require" -> <<E("current", PathIndex), E("target", S("luau"))>>

StringForm(name) == [form |-> "string", entries |-> <<E("rule", S(name))>>]
ObjectForm(name, p, f) == [form |-> "object", entries |-> <<E("rule", S(name))>> \o p \o f]
RuleTexts(name) ==
  (IF <<>> \in PropVariants(name) THEN {StringForm(name)} ELSE {})
  \cup {ObjectForm(name, p, f) : p \in PropVariants(name), f \in FilterCombos}
  \cup {ObjectForm(name, RichVariant(name), f) : f \in FilterCombos}
  \cup (IF <<>> \in PropVariants(name) THEN {ObjectForm(name, <<>>, f) : f \in FilterCombos} ELSE {})

Cfg1(rt) == [top |-> <<E("rules", RulesVal)>>, rules |-> <<rt>>, bundle |-> <<>>]
Case(t, kind, fam, ck, site, key) == [t |-> t, kind |-> kind, fam |-> fam, ck |-> ck, site |-> site, key |-> key]

SingleRuleCases == UNION {{Case(Cfg1(rt), "valid", n, "", n, "") : rt \in RuleTexts(n)} : n \in AllRules}

\* ------------------------------------------------------------------------------------------ top-level variants
FixedRules == <<StringForm("remove_comments"), StringForm("remove_empty_do")>>
RuleKeyForms == {<<E("rules", RulesVal)>>, <<E("process", RulesVal)>>, <<>>}
GenForms == {<<>>} \cup {<<E("generator", g)>> : g \in {S("retain_lines"), S("retain-lines"), S("dense"), S("readable"),
               O(<<"name", "str", "retain_lines">>), O(<<"name", "str", "retain-lines">>), O(<<"name", "str", "dense">>),
               O(<<"name", "str", "dense", "column_span", "num", "80">>), O(<<"name", "str", "dense", "column_span", "num", "20">>),
               O(<<"name", "str", "readable", "column_span", "num", "20">>), O(<<"column_span", "num", "120", "name", "str", "readable">>)}}
BundleForms == {<<>>} \cup {<<E("require_mode", m)>> \o x : m \in {S("path"), S("luau"), PathDefaultObj, PathIndex,
                                 O(<<"name", "str", "path", "module_folder_name", "str", "init">>),
                                 O(<<"name", "str", "path", "sources", "map", "@pkg=./lib2">>),
                                 O(<<"name", "str", "path", "use_luau_configuration", "bool", "false">>),
                                 O(<<"name", "str", "path", "use_luau_configuration", "bool", "true">>),
                                 PathFull, LuauNoRc, LuauAliases, LuauSources},
                               x \in {<<>>}}
               \cup {<<E("require_mode", S("path"))>> \o x : x \in {<<E("modules_identifier", S("__M"))>>, <<E("modules_identifier", S("__DARKLUA_BUNDLE_MODULES"))>>,
                                 <<E("excludes", L(<<"@pkg/**">>))>>, <<E("excludes", L(<<>>))>>,
                                 <<E("modules_identifier", S("__M")), E("excludes", L(<<"@pkg/**">>))>>}}
TopFilterForms == {a \o s : a \in ApplyForms, s \in SkipForms}
TopText(k, g, b, f) == [top |-> k \o g \o (IF b = <<>> THEN <<>> ELSE <<E("bundle", BundleVal)>>) \o f,
                        rules |-> IF k = <<>> THEN <<>> ELSE FixedRules, bundle |-> b]
RulesK == <<E("rules", RulesVal)>>
DenseG == <<E("generator", S("dense"))>>
TopTexts ==
  IF Thorough THEN {TopText(k, g, b, f) : k \in RuleKeyForms, g \in GenForms, b \in BundleForms, f \in FewFilters}
                   \cup {TopText(RulesK, g, b, f) : g \in {<<>>, DenseG}, b \in {<<>>, <<E("require_mode", S("path"))>>}, f \in TopFilterForms}
  ELSE {TopText(k, g, <<>>, <<>>) : k \in RuleKeyForms, g \in GenForms}
       \cup {TopText(RulesK, g, b, <<>>) : g \in {<<>>, DenseG}, b \in BundleForms}
       \cup {TopText(RulesK, <<>>, b, f) : b \in {<<>>, <<E("require_mode", S("path"))>>}, f \in TopFilterForms}
TopCases == {Case(t, "valid", "top", "", "top", "") : t \in TopTexts}

\* ------------------------------------------------------------------------------------------ pairs of rules (thorough)
RepText(n) == ObjectForm(n, RichVariant(n), <<E("apply_to_files", S(P1))>>)
PairCases == IF Thorough
             THEN {Case([top |-> RulesK, rules |-> <<RepText(a), RepText(b)>>, bundle |-> <<>>], "valid", "pair", "", a, "") : a \in AllRules, b \in AllRules}
             ELSE {Case([top |-> RulesK, rules |-> <<RepText(a), RepText("remove_comments")>>, bundle |-> <<>>], "valid", "pair", "", a, "") : a \in AllRules}

\* ------------------------------------------------------------------------------------------ corruptions
\* a corruption of a sequence of entries: [es, ck, key]
Cor(es, ck, key) == [es |-> es, ck |-> ck, key |-> key]
Samples == [bool |-> B("true"), str |-> S("zzz"), num |-> N("42"), strs |-> L(<<"zzz">>), null |-> Nul]
ScalarTypes == {"bool", "str", "num", "strs", "null"}
\* the types a key accepts (anything else is ill-typed); ctx: "top", "bundle", "generator", "mode", or a rule name
Expected(ctx, key) ==
  CASE ctx = "top" /\ key \in {"rules", "process"} -> {"RULES"}
  [] ctx = "top" /\ key = "generator" -> {"str", "obj"}
  [] ctx = "top" /\ key = "bundle" -> {"BUNDLE", "null"}                         \* Option<BundleConfiguration>
  [] key \in {"apply_to_files", "skip_files"} -> {"str", "strs"}
  [] ctx = "bundle" /\ key = "require_mode" -> {"str", "obj"}
  [] ctx = "bundle" /\ key = "modules_identifier" -> {"str", "null"}             \* Option<String>
  [] ctx = "bundle" /\ key = "excludes" -> {"strs"}
  [] ctx = "generator" /\ key = "name" -> {"str"}
  [] ctx = "generator" /\ key = "column_span" -> {"num"}
  [] ctx = "mode" /\ key \in {"name", "module_folder_name"} -> {"str"}
  [] ctx = "mode" /\ key = "use_luau_configuration" -> {"bool"}
  [] ctx = "mode" /\ key \in {"sources", "aliases"} -> {"map"}
  [] key \in {"rule", "text", "file", "location", "identifier", "env", "env_json", "strategy"} -> {"str"}
  [] key \in {"preserve_arguments_side_effects", "include_functions", "detect_globals"} -> {"bool"}
  [] key \in {"match", "except", "globals"} -> {"strs"}
  [] key \in {"value", "default_value"} -> ScalarTypes \cup {"obj"}
  [] key \in {"current", "target"} -> {"str", "obj"}
  [] OTHER -> {}
Misspell(es)    == {Cor([es EXCEPT ![i].k = @ \o "_x"], "misspelt-key", es[i].k) : i \in DOMAIN es}
Duplicate(es)   == {Cor(es \o <<es[i]>>, "duplicate-key", es[i].k) : i \in DOMAIN es}
Retype(es, ctx) == UNION {{Cor([es EXCEPT ![i] = E(es[i].k, Samples[ty])], "wrong-type", es[i].k) : ty \in ScalarTypes \ Expected(ctx, es[i].k)} : i \in DOMAIN es}
Extra(es)       == {Cor(es \o <<E("unknown_key", B("true"))>>, "unknown-key", "unknown_key")}
Drop(es, keys)  == {Cor(SelectSeq(es, LAMBDA e : e.k # k), "missing-required", k) : k \in keys \cap Keys(es)}
Generic(es, ctx) == Misspell(es) \cup Duplicate(es) \cup Retype(es, ctx) \cup Extra(es)
\* the same inside an object value (generator, require modes): entry i of es is an object
Inner(es, i, ctx) == {Cor([es EXCEPT ![i] = E(es[i].k, O(UnTri(x.es)))], x.ck, es[i].k \o "." \o x.key) : x \in Generic(Tri(es[i].v), ctx)}
SetValue(es, k, val, ck) == {Cor([es EXCEPT ![i] = E(k, val)], ck, k) : i \in {j \in DOMAIN es : es[j].k = k}}
AddEntries(es, more, ck, key) == {Cor(es \o more, ck, key)}

\* rule-level corruptions of the representative object form (every property non-default, both filters)
RuleBase(n) == <<E("rule", S(n))>> \o RichVariant(n) \o <<E("apply_to_files", S(P1)), E("skip_files", L(<<K1, K2>>))>>
Required(n) == CASE n = "append_text_comment" -> {"text"} [] n = "inject_global_value" -> {"identifier"}
                 [] n = "convert_require" -> {"current", "target"} [] OTHER -> {}
RuleSpecific(n, es) ==
  CASE n = "append_text_comment" -> AddEntries(es, <<E("file", S("header.txt"))>>, "contradictory", "text+file")
                                    \cup SetValue(es, "location", S("middle"), "invalid-value")
  [] n = "inject_global_value" -> AddEntries(es, <<E("value", N("1"))>>, "contradictory", "value+env")
                                  \cup AddEntries(es, <<E("env_json", S("DLV_C19_UNDEFINED"))>>, "contradictory", "env+env_json")
                                  \cup AddEntries(SelectSeq(es, LAMBDA e : e.k # "env"), <<E("value", N("1"))>>, "contradictory", "value+default_value")
  [] n = "remove_attribute" -> SetValue(es, "match", L(<<"native", "(">>), "invalid-regex")
  [] n = "remove_comments" -> SetValue(es, "except", L(<<"(">>), "invalid-regex") \cup SetValue(es, "except", L(<<"KEEP", "[a">>), "invalid-regex")
  [] n = "remove_interpolated_string" -> SetValue(es, "strategy", S("other"), "invalid-value")
  [] n = "rename_variables" -> SetValue(es, "globals", L(<<"c", "not valid">>), "invalid-value")
                               \* a `$name` entry is a GROUP: only $default and $roblox exist (everything else is an error, not an ignored entry)
                               \cup SetValue(es, "globals", L(<<"$lune">>), "invalid-value") \cup SetValue(es, "globals", L(<<"c", "$Roblox">>), "invalid-value")
                               \cup SetValue(es, "globals", L(<<"$defaults", "$default">>), "invalid-value") \cup SetValue(es, "globals", L(<<"$">>), "invalid-value")
  [] n = "convert_require" -> SetValue(es, "target", S("nope"), "invalid-value") \cup Inner(es, 2, "mode")
                              \cup SetValue(es, "current", O(<<"name", "str", "nope">>), "invalid-value")
  [] OTHER -> {}
\* groups of properties of which at most one may be given: EVERY pair of every group, on the minimal object form
ExclusiveGroups(n) == CASE n = "inject_global_value" -> {{"value", "env", "env_json"}, {"value", "default_value"}}
                        [] n = "append_text_comment" -> {{"text", "file"}}
                        [] OTHER -> {}
SampleOf(k) == CASE k = "value" -> N("1") [] k = "default_value" -> N("7") [] k = "file" -> S("header.txt") [] k = "text" -> S("x")
                 [] k = "identifier" -> S("CFG") [] OTHER -> S("DLV_C19_UNDEFINED")
MinimalBase(n) == <<E("rule", S(n))>> \o (IF n = "inject_global_value" THEN <<E("identifier", S("CFG"))>> ELSE <<>>)
ExclusivePairs(n) == UNION {{Cor(MinimalBase(n) \o <<E(p[1], SampleOf(p[1])), E(p[2], SampleOf(p[2]))>>, "contradictory", p[1] \o "+" \o p[2])
                             : p \in {q \in g \X g : q[1] # q[2]}}
                            : g \in ExclusiveGroups(n)}
RuleCorruptions(n) ==
  LET es == RuleBase(n) IN
  Generic(es, n) \cup Drop(es, {"rule"} \cup Required(n)) \cup RuleSpecific(n, es) \cup ExclusivePairs(n)
  \cup SetValue(es, "rule", S(n \o "_x"), "unknown-rule")
  \cup SetValue(es, "apply_to_files", S("["), "invalid-glob") \cup SetValue(es, "skip_files", L(<<K1, "**a">>), "invalid-glob")
  \cup SetValue(es, "apply_to_files", L(<<P1, "{a">>), "invalid-glob")
RuleCorruptCases ==
  UNION {{Case(Cfg1([form |-> "object", entries |-> x.es]), "corrupt", n, x.ck, n, x.key) : x \in RuleCorruptions(n)} : n \in AllRules}
  \cup {Case(Cfg1([form |-> "string", entries |-> <<E("rule", S(n \o "_x"))>>]), "corrupt", n, "unknown-rule", n, "rule") : n \in AllRules}
  \cup {Case(Cfg1([form |-> "raw", entries |-> <<E("rule", Samples[ty])>>]), "corrupt", "raw", "wrong-type", "rules", "[]") : ty \in ScalarTypes \ {"str"}}
  \* a rule whose required properties are missing, in string form
  \cup {Case(Cfg1(StringForm(n)), "corrupt", n, "missing-required", n, "") : n \in {m \in AllRules : <<>> \notin PropVariants(m)}}

\* top-level corruptions of two representative texts (dense generator object / retain_lines generator object)
TopBase(g) == <<E("rules", RulesVal), E("generator", g), E("bundle", BundleVal), E("apply_to_files", S(P1)), E("skip_files", L(<<K1, K2>>))>>
BundleBase == <<E("require_mode", PathFull), E("modules_identifier", S("__M")), E("excludes", L(<<"@pkg/**">>))>>
TopT(top, b) == [top |-> top, rules |-> FixedRules, bundle |-> b]
GenObjs == {O(<<"name", "str", "dense", "column_span", "num", "20">>), O(<<"name", "str", "retain_lines">>)}
TopCorruptCases ==
  UNION {
    {Case(TopT(x.es, BundleBase), "corrupt", "top", x.ck, "top", x.key) : x \in Generic(TopBase(g), "top") \cup Drop(TopBase(g), {})}
    \cup {Case(TopT(x.es, BundleBase), "corrupt", "top", x.ck, "generator", x.key) : x \in Inner(TopBase(g), 2, "generator")}
    \cup {Case(TopT(x.es, BundleBase), "corrupt", "top", x.ck, "top", x.key) :
            x \in SetValue(TopBase(g), "apply_to_files", S("**a"), "invalid-glob") \cup SetValue(TopBase(g), "skip_files", L(<<K1, "[">>), "invalid-glob")
                  \cup AddEntries(TopBase(g), <<E("process", RulesVal)>>, "duplicate-key", "rules+process")}
    : g \in GenObjs}
  \cup {Case(TopT(TopBase(g), BundleBase), "corrupt", "top", "invalid-value", "generator", "generator") : g \in {S("nope"), O(<<"name", "str", "nope">>)}}
  \cup {Case(TopT(TopBase(g), BundleBase), "corrupt", "top", "invalid-value", "generator", "generator.column_span") :
          g \in {O(<<"name", "str", "dense", "column_span", "num", "-1">>), O(<<"name", "str", "readable", "column_span", "num", "1.5">>)}}
  \cup {Case(TopT(TopBase(g), BundleBase), "corrupt", "top", "unknown-key", "generator", "generator.column_span") :
          g \in {O(<<"name", "str", "retain_lines", "column_span", "num", "20">>), O(<<"column_span", "num", "20", "name", "str", "retain-lines">>)}}
  \cup {Case(TopT(TopBase(S("dense")), x.es), "corrupt", "top", x.ck, "bundle", x.key) :
          x \in Generic(BundleBase, "bundle") \cup Drop(BundleBase, {"require_mode"}) \cup Inner(BundleBase, 1, "mode")
                \cup SetValue(BundleBase, "excludes", L(<<"@pkg/**", "[">>), "invalid-glob")
                \cup SetValue(BundleBase, "require_mode", S("roblox"), "invalid-value")
                \cup UNION {SetValue(BundleBase, "modules_identifier", S(v), "invalid-identifier") : v \in {"end", "not valid", "1x", ""}}
                \cup SetValue(BundleBase, "require_mode", O(<<"name", "str", "luau", "module_folder_name", "str", "index">>), "unknown-key")
                \cup SetValue(BundleBase, "require_mode", O(<<"name", "str", "luau", "aliases", "map", "@a=./x", "sources", "map", "@b=./y">>), "duplicate-key")}

Cases == SingleRuleCases \cup TopCases \cup PairCases \cup RuleCorruptCases \cup TopCorruptCases

\* ------------------------------------------------------------------------------------------ the model-checking instance

\* named triggers of the open findings (the deviation flags that are on): counterexamples under a trigger are reported, not fatal
RuleNamesOf(t) == {LET es == t.rules[i].entries IN IF Has(es, "rule") /\ Get(es, "rule").ty = "str" THEN Get(es, "rule").v[1] ELSE "" : i \in DOMAIN t.rules}
HasProp(t, n, k) == \E i \in DOMAIN t.rules : LET es == t.rules[i].entries IN Has(es, "rule") /\ Get(es, "rule") = S(n) /\ Has(es, k) /\ Get(es, k).v # <<>>
Trigger_F_C19_b(t) == DevConvertRequireNoProps /\ "convert_require" \in RuleNamesOf(t)
Trigger_F_C19_c(t) == DevRemoveCommentsNoExcept /\ HasProp(t, "remove_comments", "except")
Trigger_F_C19_d(t) == DevRemoveAttributeNoMatch /\ HasProp(t, "remove_attribute", "match")
Trigger_F_C19_a(t) == (DevStringFormDropsFilters \/ DevSkipGuardUsesApply) /\ \E i \in DOMAIN t.rules : Has(t.rules[i].entries, "apply_to_files") \/ Has(t.rules[i].entries, "skip_files")
SerTrigger(t) == Trigger_F_C19_a(t) \/ Trigger_F_C19_b(t) \/ Trigger_F_C19_c(t) \/ Trigger_F_C19_d(t)
Trigger_F_C19_e(x) == DevUnitGeneratorIgnoresFields /\ x.site = "generator" /\ Has(x.t.top, "generator") /\ Get(x.t.top, "generator").ty = "obj"
                      /\ \E i \in DOMAIN Tri(Get(x.t.top, "generator").v) : LET e == Tri(Get(x.t.top, "generator").v)[i] IN e.k = "name" /\ e.v \in {<<"retain_lines">>, <<"retain-lines">>}
Trigger_F_C19_f(x) == DevBundleExcludesUnchecked /\ x.site = "bundle" /\ x.ck = "invalid-glob" /\ x.key = "excludes"
StrictTrigger(x) == Trigger_F_C19_e(x) \/ Trigger_F_C19_f(x)

\* every case with what the model derives from it, computed once per case
Enrich(x) ==
  LET p == Parse(x.t) IN LET s == Ser(p.cfg) IN LET q == Parse(s) IN LET b == Behaves(p.cfg) IN
  [case |-> x, ok |-> p.ok, ser |-> s, beh |-> b, rt |-> q.ok /\ Behaves(q.cfg) = b,
   trig |-> SerTrigger(x.t), strig |-> StrictTrigger(x), usite |-> IF ~q.ok THEN UnreadableSite(s) ELSE BehDiff(b, Behaves(q.cfg)).site]
Enriched == {Enrich(x) : x \in Cases}
Tab == {y \in Enriched : y.case.kind = "valid" /\ y.case.fam # "pair"}
\* one extra state per family: SerInjective is checked there over all pairs of the family
EmptyT == [top |-> <<>>, rules |-> <<>>, bundle |-> <<>>]
FamilyStates == {[Enrich(Case(EmptyT, "family", f, "", "", "")) EXCEPT !.ok = FALSE] : f \in {y.case.fam : y \in Tab}}

VARIABLE c
Init == c \in Enriched \cup FamilyStates
Next == UNCHANGED c
Kind == c.case.kind
Fam == c.case.fam

\* sanity of the instance: what it calls valid, the model accepts (otherwise the enumeration itself is wrong)
ModelSane == Kind = "valid" => c.ok

\* the theorems, outside the named triggers (a violation here is a defect of the DESIGN that no open finding explains)
RoundTripHolds == (Kind = "valid" /\ ~c.trig) => c.rt
StrictHolds    == (Kind = "corrupt" /\ ~c.strig) => ~c.ok
InjectiveHolds == Kind = "family" =>
                    LET F == {z : z \in {y \in Tab : y.case.fam = Fam}} IN
                    \A x \in F : ~x.trig => \A y \in F : (~y.trig /\ x.ser = y.ser) => x.beh = y.beh

\* ... and under them: reported and counted, exploration continues
Sig == [fam |-> Fam, site |-> c.case.site, ck |-> c.case.ck, key |-> c.case.key]
RoundTripReport == (Kind = "valid" /\ c.trig /\ ~c.rt) => PrintT("DESIGN-ROUNDTRIP " \o ToJson([fam |-> Fam, site |-> c.usite]))
StrictReport == (Kind = "corrupt" /\ c.strig /\ c.ok) => PrintT("DESIGN-STRICT " \o ToJson(Sig))
InjectiveReport == Kind = "family" =>
                    LET F == {z : z \in {y \in Tab : y.case.fam = Fam}} IN
                    \A x \in F : (\E y \in F : (x.trig \/ y.trig) /\ x.ser = y.ser /\ x.beh # y.beh) => PrintT("DESIGN-INJECTIVE " \o ToJson([fam |-> Fam]))

EmitCase == Kind # "family" => PrintT("CASE " \o ToJson([t |-> c.case.t, kind |-> Kind, fam |-> Fam, ck |-> c.case.ck, site |-> c.case.site, key |-> c.case.key, expect |-> ValidIdeal(c.case.t), expect_code |-> c.ok]))
=============================================================================
