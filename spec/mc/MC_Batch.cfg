INIT Init
NEXT Next
INVARIANT EmitCase
INVARIANT ModelTheorems
