INIT Init
NEXT Next
INVARIANT Emit
