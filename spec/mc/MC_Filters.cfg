INIT Init
NEXT Next
INVARIANT DeletionTheorem
INVARIANT LocalityTheorem
INVARIANT RootTheorem
INVARIANT EmitCase
