INIT Init
NEXT Next
INVARIANT Emit
INVARIANT LifeOK
