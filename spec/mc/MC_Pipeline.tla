------------------------------ MODULE MC_Pipeline ------------------------------
(* Enumerates every configuration of Pipeline.tla with at most 2 rules. *)
EXTENDS Pipeline, Json, IOUtils
VARIABLES r1, r2, g
Init == r1 \in 0..Len(Rules) /\ r2 \in 0..Len(Rules) /\ (r1 = 0 => r2 = 0) /\ g \in 1..Len(Generators)
Next == UNCHANGED <<r1, r2, g>>
Seq2 == (IF r1 = 0 THEN <<>> ELSE <<Rules[r1]>>) \o (IF r2 = 0 THEN <<>> ELSE <<Rules[r2]>>)
Emit == PrintT("CASE " \o ToJson([rules |-> Seq2, generator |-> Generators[g]]))
\* sanity theorems of the lifecycle (model-checked on every state): the three ways to be accepted, and nothing after a panic
LifeOK == /\ Accepted(<<"parse_err">>) /\ Accepted(<<"parse_ok", "rules_err">>) /\ Accepted(<<"parse_ok", "rules_ok", "written", "reparse_ok">>)
          /\ ~Accepted(<<"parse_ok", "rules_ok", "written", "reparse_fail">>) /\ ~Accepted(<<"panic">>) /\ ~Accepted(<<"parse_ok", "panic">>)
          /\ ~Accepted(<<"parse_ok", "hang">>) /\ ~Accepted(<<"parse_ok", "rules_ok">>) /\ ~Accepted(<<"parse_ok", "err_unnamed">>)
=============================================================================
