------------------------------ MODULE MC_Layout ------------------------------
(* Enumerates layouts: the base layout (one statement per line), every single gap x kind, *)
(* and (MODE = pairs) two gaps x kinds.                                                   *)
EXTENDS Layout, Json, IOUtils
Mode == IF "MODE" \in DOMAIN IOEnv THEN IOEnv.MODE ELSE "single"
VARIABLES tp, g1, k1, g2, k2
Init ==
  /\ tp \in 1..Len(Templates)
  /\ g1 \in 0..NTokens(tp)
  /\ k1 \in (IF g1 = 0 THEN {0} ELSE 2..Len(GapKinds))
  /\ IF Mode = "pairs" /\ g1 > 0 THEN g2 \in (g1 + 1)..NTokens(tp) /\ k2 \in 2..Len(GapKinds) ELSE g2 = 0 /\ k2 = 0
  /\ g1 # 1
Next == UNCHANGED <<tp, g1, k1, g2, k2>>
Choice == IF g1 = 0 THEN <<>> ELSE IF g2 = 0 THEN (g1 :> k1) ELSE (g1 :> k1) @@ (g2 :> k2)
Emit == PrintT("CASE " \o ToJson([tpl |-> tp, g1 |-> g1, k1 |-> k1, g2 |-> g2, k2 |-> k2, src |-> Text(tp, Choice), stag |-> StmtTag(tp, g1)]))
=============================================================================
