------------------------------ MODULE MC_Layout ------------------------------
(* Enumerates layouts: the base layout (one statement per line), every single gap x kind, *)
(* (MODE = pairs) two gaps x kinds, and (MODE = dense) PERIODIC layouts: a gap of kind k1  *)
(* in front of every token whose index is g2 modulo g1 (stride g1 in 1..4): together the  *)
(* dense layouts put a line break / a comment in front of every token of the template.    *)
EXTENDS Layout, Json, IOUtils
Mode == IF "MODE" \in DOMAIN IOEnv THEN IOEnv.MODE ELSE "single"
VARIABLES tp, g1, k1, g2, k2
InitSparse ==
  /\ tp \in 1..Len(Templates)
  /\ g1 \in 0..NTokens(tp)
  /\ k1 \in (IF g1 = 0 THEN {0} ELSE 2..Len(GapKinds))
  /\ IF Mode = "pairs" /\ g1 > 0 THEN g2 \in (g1 + 1)..NTokens(tp) /\ k2 \in 2..Len(GapKinds) ELSE g2 = 0 /\ k2 = 0
  /\ g1 # 1
  \* comment blocks (kinds 9..) stand above statements only
  /\ (k1 >= 9 => Starts(Templates[tp], 1)[g1]) /\ (k2 >= 9 => Starts(Templates[tp], 1)[g2])
\* dense: g1 = stride, g2 = offset, k1 = the gap kind, k2 = a second kind used at every other selected position (0: none)
InitDense ==
  /\ tp \in 1..Len(Templates)
  /\ g1 \in 1..4 /\ g2 \in 0..(g1 - 1)
  /\ k1 \in {2, 4, 5, 6}
  /\ k2 \in {0, 3}
Init == IF Mode = "dense" THEN InitDense ELSE InitSparse
Next == UNCHANGED <<tp, g1, k1, g2, k2>>
DenseChoice == LET sel == {i \in 2..NTokens(tp) : i % g1 = g2} IN
               [i \in sel |-> IF k2 # 0 /\ (i \div g1) % 2 = 1 THEN k2 ELSE k1]
Choice == IF Mode = "dense" THEN DenseChoice ELSE IF g1 = 0 THEN <<>> ELSE IF g2 = 0 THEN (g1 :> k1) ELSE (g1 :> k1) @@ (g2 :> k2)
Emit == PrintT("CASE " \o ToJson([tpl |-> tp, g1 |-> g1, k1 |-> k1, g2 |-> g2, k2 |-> k2, src |-> Text(tp, Choice),
                                   stag |-> IF Mode = "dense" THEN "dense" ELSE StmtTag(tp, g1)]))
=============================================================================
