---------------------------- MODULE MC_Multibyte ----------------------------
(* Enumerates Multibyte!Text over every template and every insertion offset (one state each). *)
EXTENDS Multibyte, Json, TLC
VARIABLES t, k
\* t < 0: glue site -t, k = the separator (states of their own, no successor)
Init == \/ t \in 1..Len(Templates) /\ k = -1
        \/ t \in {-i : i \in 1..Len(GlueSites)} /\ k \in 1..Len(GlueSeps)
\* k in Offsets(t): insertion inside / around the template; k = 1000 + e: file-edge text number e
Next == t > 0 /\ k = -1 /\ k' \in Offsets(t) \cup {1000 + e : e \in 1..Len(EdgeTexts(t))} /\ UNCHANGED t
Emit == IF t < 0 THEN PrintT("GLUE " \o ToJson([site |-> -t, sep |-> k, src |-> GlueText(-t, k)])) ELSE k = -1 \/ PrintT("MB " \o ToJson([t |-> t, k |-> k, template |-> Templates[t],
                                         src |-> IF k >= 1000 THEN EdgeTexts(t)[k - 1000] ELSE Text(t, k)]))
\* every offset of every template is produced exactly once (TLC reports the distinct states)
=============================================================================
