---------------------------- MODULE MC_Multibyte ----------------------------
(* Enumerates Multibyte!Text over every template and every insertion offset (one state each). *)
EXTENDS Multibyte, Json, TLC
VARIABLES t, k
Init == t \in 1..Len(Templates) /\ k = -1
Next == k = -1 /\ k' \in Offsets(t) /\ UNCHANGED t
Emit == k = -1 \/ PrintT("MB " \o ToJson([t |-> t, k |-> k, template |-> Templates[t], src |-> Text(t, k)]))
\* every offset of every template is produced exactly once (TLC reports the distinct states)
=============================================================================
