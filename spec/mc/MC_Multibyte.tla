---------------------------- MODULE MC_Multibyte ----------------------------
(* Enumerates Multibyte!Text over every template and every insertion offset (one state each). *)
EXTENDS Multibyte, Json, TLC
VARIABLES t, k
Init == t \in 1..Len(Templates) /\ k = -1
\* k in Offsets(t): insertion inside / around the template; k = 1000 + e: file-edge text number e
Next == k = -1 /\ k' \in Offsets(t) \cup {1000 + e : e \in 1..Len(EdgeTexts(t))} /\ UNCHANGED t
Emit == k = -1 \/ PrintT("MB " \o ToJson([t |-> t, k |-> k, template |-> Templates[t],
                                         src |-> IF k >= 1000 THEN EdgeTexts(t)[k - 1000] ELSE Text(t, k)]))
\* every offset of every template is produced exactly once (TLC reports the distinct states)
=============================================================================
