----------------------------- MODULE MC_DataConv -----------------------------
(* Bounded instance of DataConv (C14).                                                       *)
(*  fam = "key"  : model-checks the key-quoting rule against the reference lexer over every   *)
(*                 byte string of length <= KEYLEN over an alphabet of identifier, digit,     *)
(*                 punctuation, control, NUL and non-ASCII bytes, plus every (contextual)     *)
(*                 keyword and its near misses (BareKeySound; BareKeyComplete is reported).   *)
(*  other fams   : enumerates data values -- each state is one document meaning, printed as   *)
(*                 a CASE line and replayed through the real converters (S->I).              *)
EXTENDS DataConv, Json, IOUtils

EnvOr(n, dflt) == IF n \in DOMAIN IOEnv THEN IOEnv[n] ELSE dflt
KeyLen == atoi(EnvOr("KEYLEN", "3"))
ShapesMode == EnvOr("SHAPES", "small")

\* ---------------------------------------------------------------- universe of the key rule
KeyAlpha == {97, 90, 95, 48, 57, 32, 45, 46, 34, 92, 10, 0, 195, 169}
Words == { "and", "break", "do", "else", "elseif", "end", "false", "for", "function", "if", "in", "local", "nil", "not", "or",
           "repeat", "return", "then", "true", "until", "while",
           "continue", "type", "export", "typeof", "goto", "const", "self" }
UpFirst(b) == IF b[1] >= 97 /\ b[1] <= 122 THEN <<b[1] - 32>> \o SubSeq(b, 2, Len(b)) ELSE b
NearMisses(w) == LET b == BytesOf(w) IN
  { b, b \o <<95>>, <<95>> \o b, b \o <<49>>, <<49>> \o b, UpFirst(b), SubSeq(b, 1, Len(b) - 1), b \o <<32>>, <<32>> \o b, b \o b, b \o <<0>>, b \o <<195, 169>> }
KeyUniverse == UNION {[1..n -> KeyAlpha] : n \in 0..KeyLen} \cup UNION {NearMisses(w) : w \in Words}

\* ---------------------------------------------------------------- pools of the data enumeration
U(s) == BytesOf(s)                                   \* ASCII text -> bytes
KeyPool == <<
  U("and"), U("break"), U("do"), U("else"), U("elseif"), U("end"), U("false"), U("for"), U("function"), U("if"), U("in"),
  U("local"), U("nil"), U("not"), U("or"), U("repeat"), U("return"), U("then"), U("true"), U("until"), U("while"),
  U("continue"), U("type"), U("export"), U("typeof"), U("goto"), U("const"), U("self"),
  U("name"), U("_"), U("_1"), U("A1"), U("End"), U("nil1"), U("camelCase_9"),
  U("1a"), U("9"), U("0"), U("007"), U("1e3"), U("-1"), U("0x10"),
  <<>>,                                              \* the empty key
  U(" "), U("a b"), U("and "), U(" x"), U("a-b"), U("a.b"), U("a:b"), U("a=b"), U("["), U("]]"), U("[[x]]"), U("--"), U("--[["),
  <<97, 34, 98>>, <<97, 39, 98>>, <<34>>, <<39, 34>>,                     \* quotes  a"b  a'b  "  '"
  <<97, 92, 98>>, <<92>>, <<92, 110>>, <<97, 92, 92>>,                    \* backslashes  a\b  \  \n(two chars)  a\\
  <<97, 10, 98>>, <<10>>, <<97, 13, 98>>, <<97, 13, 10, 98>>, <<97, 9, 98>>,     \* LF CR CRLF TAB inside
  <<97, 0, 98>>, <<0>>, <<0, 49>>,                                         \* NUL
  <<1>>, <<27, 91>>, <<127>>,                                              \* other controls
  <<195, 169>>, <<99, 97, 102, 195, 169>>, <<230, 151, 165, 230, 156, 172>>, <<194, 128>>, <<239, 191, 191>>,   \* e-acute, cafe, nihon, U+0080, U+FFFF
  <<240, 159, 152, 128>>, <<244, 143, 191, 191>>, <<226, 128, 168>>, <<239, 187, 191, 107>>   \* U+1F600, U+10FFFF, U+2028, BOM + k
>>
StrPool == <<
  <<>>, U("plain"), U("two words"), U(" lead"), U("trail "),
  <<34>>, <<39>>, <<34, 39>>, <<39, 34, 39, 34>>, U("say \"hi\""), U("it's"),
  <<92>>, <<92, 92>>, <<92, 110>>, <<97, 98, 99, 92>>, <<92, 34>>, <<92, 117, 123, 52, 49, 125>>, <<92, 48>>,
  <<10>>, <<10, 97, 98, 99>>, <<97, 10>>, <<97, 10, 98>>, <<10, 10>>, <<13>>, <<13, 10>>, <<10, 13>>, <<97, 13, 98>>, <<13, 10, 97>>,
  <<9>>, <<0>>, <<0, 49>>, <<97, 0, 98>>, <<1, 50, 51>>, <<7>>, <<8>>, <<11>>, <<12>>, <<27>>, <<127>>, <<31, 32>>,
  <<1, 2, 3, 4, 5, 6, 7, 8, 9, 10, 11, 12, 13, 14, 15, 16, 17, 18, 19, 20, 21, 22, 23, 24, 25, 26, 27, 28, 29, 30, 31>>,
  U("]]"), U("]=]"), U("[["), U("[=["), U("a]]b"), <<93, 93, 10>>, <<10, 93, 93>>, <<97, 10, 93, 61, 93, 10, 93, 93>>, U("--"), U("--[[ x ]]"), U("]]--"),
  U("`"), U("{x}"), U("${x}"), U("%s %d"), U("\\65"), U("0"), U("1e3"), U("true"), U("null"), U("nil"), U("~"), U("- a"), U("a: b"), U("# c"),
  <<195, 169>>, <<99, 97, 102, 195, 169>>, <<230, 151, 165, 230, 156, 172, 232, 170, 158>>, <<194, 128>>, <<195, 191>>, <<196, 128>>,
  <<223, 191>>, <<224, 160, 128>>, <<237, 159, 191>>, <<238, 128, 128>>, <<239, 191, 191>>, <<239, 191, 189>>,
  <<240, 144, 128, 128>>, <<240, 159, 152, 128>>, <<244, 143, 191, 191>>, <<226, 128, 168>>, <<226, 128, 169>>, <<239, 187, 191>>, <<194, 133>>, <<194, 160>>
>>
\* long strings: the writer switches to long brackets at >= 60 bytes (or >= 20 bytes with >= 6 newlines): every byte class
\* that matters inside a long bracket (CR, CRLF, LF CR, TAB, FF, closing-bracket look-alikes, a leading newline, quotes,
\* a backslash, NUL, non-ASCII) in the middle, at the start and at the end of such a string
Fill == [i \in 1..31 |-> 120]
Mid(b) == Fill \o b \o Fill
LongPool == <<
  Mid(<<13>>), Mid(<<13, 10>>), Mid(<<10, 13>>), Mid(<<10>>), Mid(<<9>>), Mid(<<12>>), Mid(<<11>>), Mid(<<93, 93>>), Mid(<<93, 61, 93>>),
  Mid(<<34>>), Mid(<<39>>), Mid(<<92>>), Mid(<<92, 110>>), Mid(<<0>>), Mid(<<195, 169>>), Mid(<<127>>), Mid(<<32>>),
  <<10>> \o Fill \o Fill, <<13>> \o Fill \o Fill, <<13, 10>> \o Fill \o Fill, Fill \o Fill \o <<93>>, Fill \o Fill \o <<93, 61>>,
  Fill \o Fill \o <<13>>, Fill \o Fill \o <<10>>, Fill \o <<93, 93>> \o Fill \o <<93, 61>>,
  <<97, 13, 10, 98, 13, 10, 99, 13, 10, 100, 13, 10, 101, 13, 10, 102, 13, 10, 103, 13, 10>>,            \* 7 CRLF lines, 21 bytes
  <<97, 98, 10, 99, 100, 10, 101, 102, 10, 103, 104, 10, 105, 106, 10, 107, 108, 10, 109, 110>>,          \* 6 LF, 20 bytes
  <<97, 98, 10, 99, 100, 10, 101, 102, 10, 103, 104, 10, 105, 106, 10, 107, 108, 13, 109, 110>>           \* 5 LF + 1 CR
>>
NumPool == <<
  "0", "-0", "0.0", "-0.0", "1", "-1", "1.0", "42", "255", "-255", "65536", "4294967296", "123456789012",
  "0.5", "-1.5", "3.14159", "0.1", "0.2", "0.30000000000000004", "1.0000000000000002", "0.000001", "123456.789",
  "1e3", "1E3", "5e0", "1e-7", "2.5e-3", "1.5e300", "-1.5e300", "1e15", "1e16", "1e21", "1e22", "1e23", "123456.789e3", "1e+2", "12e-1",
  "9007199254740991", "9007199254740992", "9007199254740993", "9007199254740995", "-9007199254740993", "9007199254740994",
  "72057594037927937", "9223372036854775807", "-9223372036854775808", "9223372036854775808", "-9223372036854775809",
  "18446744073709551615", "18446744073709551616", "100000000000000000000", "123456789012345678901234567890",
  "9007199254740993.0", "9007199254740992.5",
  "1.7976931348623157e308", "1.7976931348623158e308", "4.9e-324", "5e-324", "2.4703282292062328e-324", "2.2250738585072014e-308", "2.2250738585072011e-308",
  "1e400", "-1e400", "1e-400"
>>
SpecialNums == <<DInf, DNegInf, DNaN>>

\* ---------------------------------------------------------------- enumerated data values
SeqSet(q) == {q[i] : i \in 1..Len(q)}
KA == U("a")  KB == U("b")
One == DNum("1")
KeyFam == UNION { LET ky == KeyPool[i] IN LET nx == KeyPool[(i % Len(KeyPool)) + 1] IN
                  { DObj(<<ky>>, <<One>>),
                    DObj(<<ky>>, <<DObj(<<ky>>, <<DArr(<<DStr(ky)>>)>>)>>),
                    DObj(<<ky, U("zz")>>, <<DNull, One>>),
                    DObj(<<ky, nx>>, <<One, DNum("2")>>),
                    DArr(<<DObj(<<ky>>, <<DBool(TRUE)>>), DObj(<<nx, ky>>, <<DStr(nx), DStr(ky)>>)>>) }
                : i \in 1..Len(KeyPool) }
         \cup { DObj(KeyPool, [i \in 1..Len(KeyPool) |-> DNum(IntStr(i))]) }          \* every key in one object
StrFam == UNION { LET sv == StrPool[i] IN LET nx == StrPool[(i % Len(StrPool)) + 1] IN
                  { DStr(sv), DArr(<<DStr(sv)>>), DObj(<<U("v")>>, <<DStr(sv)>>), DArr(<<DStr(sv), DStr(nx)>>),
                    DObj(<<U("o")>>, <<DObj(<<U("i")>>, <<DArr(<<DStr(sv)>>)>>)>>) }
                : i \in 1..Len(StrPool) }
         \cup { DArr([i \in 1..Len(StrPool) |-> DStr(StrPool[i])]) }                  \* every string in one array
         \cup UNION { LET sv == LongPool[i] IN
                      { DStr(sv), DArr(<<DStr(sv), One>>), DObj(<<U("v")>>, <<DStr(sv)>>), DObj(<<sv>>, <<One>>) }          \* also as a KEY
                    : i \in 1..Len(LongPool) }
NumVals == {DNum(NumPool[i]) : i \in 1..Len(NumPool)} \cup SeqSet(SpecialNums)
NumFam == UNION { { n, DArr(<<n>>), DObj(<<U("n")>>, <<n>>), DArr(<<One, n, DNum("2")>>) } : n \in NumVals }
         \cup { DArr([i \in 1..Len(NumPool) |-> DNum(NumPool[i])]) }
\* shapes: every value of nesting <= 2 over the leaves {null, 1} with containers of <= 2 members (arrays and objects,
\* empty containers included), and nesting 3 with one such value inside (alone, or beside a leaf on either side)
Leaves == {DNull, One}
Cont(S) == {DArr(<<>>), DObj(<<>>, <<>>)} \cup {DArr(<<x>>) : x \in S} \cup {DArr(<<x, y>>) : x \in S, y \in S}
           \cup {DObj(<<KA>>, <<x>>) : x \in S} \cup {DObj(<<KA, KB>>, <<x, y>>) : x \in S, y \in S}
S1 == Leaves \cup Cont(Leaves)
S2 == Leaves \cup Cont(S1)
S3Single == {DArr(<<x>>) : x \in S2} \cup {DObj(<<KA>>, <<x>>) : x \in S2}
S3Pair == {DArr(<<x, y>>) : x \in S2, y \in Leaves} \cup {DArr(<<y, x>>) : x \in S2, y \in Leaves}
          \cup {DObj(<<KA, KB>>, <<x, y>>) : x \in S2, y \in Leaves} \cup {DObj(<<KA, KB>>, <<y, x>>) : x \in S2, y \in Leaves}
ShapeFam == IF ShapesMode = "full" THEN S2 \cup S3Single \cup S3Pair ELSE IF ShapesMode = "small" THEN S2 \cup S3Single ELSE S1
\* scalars, every null/value pattern of a 4-array and a 3-object, a long sequence, mixed content
NullPatterns == {DArr([i \in 1..4 |-> IF p[i] = 1 THEN DNum(IntStr(i)) ELSE DNull]) : p \in [1..4 -> {0, 1}]}
                \cup {DObj(<<U("x"), U("y"), U("z")>>, [i \in 1..3 |-> IF p[i] = 1 THEN DNum(IntStr(i)) ELSE DNull]) : p \in [1..3 -> {0, 1}]}
MiscFam == {DNull, DBool(TRUE), DBool(FALSE)} \cup NullPatterns
           \cup { DArr([i \in 1..40 |-> DNum(IntStr(i))]),
                  DObj(<<U("name"), U("list"), U("nested"), U("flag"), U("none"), U("ratio")>>,
                       <<DStr(U("darklua")), DArr(<<DNum("1"), DStr(U("two")), DBool(FALSE), DNull, DArr(<<>>)>>),
                         DObj(<<U("deep")>>, <<DArr(<<DNum("-1.5"), DNull, DStr(U("x"))>>)>>), DBool(TRUE), DNull, DNum("0.25")>>),
                  DArr(<<DArr(<<DArr(<<DNull, DBool(FALSE)>>)>>), DObj(<<>>, <<>>), DArr(<<>>)>>) }

Fams == <<"keys", "strings", "numbers", "shapes", "misc">>
FamSet(f) == CASE f = "keys" -> KeyFam [] f = "strings" -> StrFam [] f = "numbers" -> NumFam [] f = "shapes" -> ShapeFam [] OTHER -> MiscFam

VARIABLES fam, key, d
vars == <<fam, key, d>>
McInit == \/ fam = "key" /\ key \in KeyUniverse /\ d = DNull
        \/ \E f \in SeqSet(Fams) : fam = f /\ key = <<>> /\ d \in FamSet(f)
McNext == UNCHANGED vars

\* ---- invariants
KeyRuleSound == fam = "key" => BareKeySound(key)
KeyRuleCompleteReport == fam = "key" => (BareKeyComplete(key) \/ PrintT("INCOMPLETE " \o ToJson([key |-> key])))
DataWellFormed == fam # "key" => DWellFormed(d) /\ DDepth(d) <= 3
EmitCase == fam # "key" => PrintT("CASE " \o ToJson([fam |-> fam, d |-> d]))
=============================================================================
