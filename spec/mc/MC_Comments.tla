----------------------------- MODULE MC_Comments -----------------------------
(* All comment texts of length <= MaxLen over the alphabet  ] [ = - LF CR x  (plus a few   *)
(* structured ones): model-checks CommentText!Safe (design level) and emits every text as a *)
(* case for replay through the real append_text_comment rule.                              *)
EXTENDS CommentText, Json, IOUtils
Alpha == {93, 91, 61, 45, 10, 13, 120}
MaxLen == IF "MAXLEN" \in DOMAIN IOEnv THEN atoi(IOEnv.MAXLEN) ELSE 3
Extra == { BytesOf("hello world"), BytesOf("[[ hello"), BytesOf("[==[x"), BytesOf("a\nb]]c]=]d"), BytesOf("ends with ]"),
           BytesOf("line1\nline2\n"), BytesOf("\n"), BytesOf("--"), BytesOf("x]]\n]"), BytesOf("]=]\n]]") }
\* closer runs: every string of length <= 5 over ] and = (overlapping closers such as ]=]] or ]]=]), in the long form
\* (line feed first or last) and in a line comment
Runs == UNION {[1..n -> {93, 61}] : n \in 2..5}
RunTexts == {<<120, 10>> \o r : r \in Runs} \cup {r \o <<10, 120>> : r \in Runs} \cup {<<120>> \o r : r \in Runs}
Texts == UNION {[1..n -> Alpha] : n \in 0..MaxLen} \cup Extra \cup RunTexts
VARIABLE t
Init == t \in Texts
Next == UNCHANGED t
Emit == PrintT("CASE " \o ToJson([text |-> t, safe |-> Safe(t), safe_unchecked |-> SafeUnchecked(t), opens_long |-> OpensLongBracket(t), lone_cr |-> HasLoneCR(t)]))
\* design theorem: every text is safe; the unchecked variant (before the fix) is unsafe exactly within the two escape routes
AlwaysSafe == Safe(t)
UncheckedUnsafeOnlyWhenKnown == SafeUnchecked(t) \/ OpensLongBracket(t) \/ HasLoneCR(t)
=============================================================================
