INIT Init
NEXT Next
INVARIANT PrintParseOrKnown
INVARIANT Emit
