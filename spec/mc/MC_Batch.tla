------------------------------ MODULE MC_Batch ------------------------------
(* Bounded instance of Batch (C11): enumerates every case of the universe                        *)
(*   tree (each Lua file absent / healthy / faulty(kind), at most MAXFAULTY faults)              *)
(*   x input form x output form x fail-fast x configuration (incl. the .luaurc configurations,   *)
(*   whose trees carry nested .luaurc files and alias target directories),                       *)
(* model-checks the internal theorems of the model on every case (an invariant violation here is *)
(* an error of the MODEL, reported as a tool error) and emits every case as a `CASE {json}` line *)
(* that the driver `dlv batch` renders into a real directory tree (S->I).                        *)
EXTENDS Batch, Json, IOUtils

MaxFaulty == IF "MAXFAULTY" \in DOMAIN IOEnv THEN atoi(IOEnv.MAXFAULTY) ELSE 2
\* the .luaurc configurations (whose cases cost the driver five times the runs) may be given a smaller bound
RcMaxFaulty == IF "RCMAXFAULTY" \in DOMAIN IOEnv THEN atoi(IOEnv.RCMAXFAULTY) ELSE MaxFaulty

VARIABLES root, fi, st, out, ff, cfg
vars == <<root, fi, st, out, ff, cfg>>

Case == [root |-> root, fi |-> fi, st |-> st, out |-> out, ff |-> ff, cfg |-> cfg]

NotOk(s) == {i \in E : s[i] \notin {"absent", "ok"}}

\* replay mode: ONLY = ndjson file of case descriptors [root, fi, st, out, ff, cfg] to expand (pinned reproducers, --replay)
Only == IF "ONLY" \in DOMAIN IOEnv THEN ndJsonDeserialize(IOEnv.ONLY) ELSE <<>>

\* Two steps so that TLC's workers share the enumeration: the initial states fix the cheap dimensions, the single
\* transition chooses the tree (st = <<>> means "not chosen yet").
Init ==
  IF Only # <<>> THEN
    \E k \in 1..Len(Only) :
      /\ root = Only[k].root /\ fi = Only[k].fi /\ st = Only[k].st /\ out = Only[k].out /\ ff = Only[k].ff /\ cfg = Only[k].cfg
  ELSE
  /\ root \in Roots
  /\ fi \in 0..NLua
  /\ (root = "file") = (fi # 0)
  /\ out \in OutForms
  /\ ff \in BOOLEAN
  /\ cfg \in Configs
  /\ st = <<>>
Choose ==
  /\ st = <<>>
  /\ st' \in [E -> States]
  /\ Cardinality(NotOk(st')) <= (IF cfg \in RcCfgs THEN RcMaxFaulty ELSE MaxFaulty)
  \* files outside the input are bystanders: present and healthy (the interesting variation is under the input)
  /\ \A i \in E : ~(IF root = "file" THEN i = fi ELSE IsProperPrefix(InputPath([root |-> root, fi |-> fi]), Src(i))) => st'[i] = "ok"
  /\ \A i \in E : st'[i] \in UnwFault => out = "exdir"
  /\ WellFormedCase([root |-> root, fi |-> fi, st |-> st', out |-> out, ff |-> ff, cfg |-> cfg])
  /\ UNCHANGED <<root, fi, out, ff, cfg>>
Next == Choose

\* ---- rendering helpers
RECURSIVE SetToSeq(_)
SetToSeq(s) == IF s = {} THEN <<>> ELSE LET x == CHOOSE y \in s : TRUE IN <<x>> \o SetToSeq(s \ {x})

MemOk(c) ==
  /\ \A i \in E : c.st[i] \notin ({"utf8"} \cup UnwFault)
  /\ ~(c.out = "exfile" /\ c.root # "file")      \* in-memory resources have no notion of "a file is in the way"
KindsOf(c) == {c.st[i] : i \in {j \in FaultySet(c) : c.st[j] # "ok"}} \cup (IF \E i \in FaultySet(c) : c.st[i] = "ok" THEN {"blocked"} ELSE {})

CaseJson(c) ==
  [root |-> c.root, fi |-> c.fi, st |-> c.st, out |-> c.out, ff |-> c.ff, cfg |-> c.cfg,
   bundle |-> Bundle(c), memok |-> MemOk(c), inplace |-> InPlace(c),
   refrun |-> HealthySet(c) # {} /\ FaultySet(c) # {},
   input |-> InputPath(c), output |-> OutPath(c), hasout |-> HasOutput(c),
   tree |-> SetToSeq(InitialTree(c)), reftree |-> SetToSeq(RefTree(c)),
   entries |-> [i \in E |-> [id |-> LuaId[i], src |-> Src(i), dst |-> IF UnderInput(c, i) THEN Dest(c, i) ELSE <<>>,
                            state |-> c.st[i], work |-> UnderInput(c, i), faulty |-> Faulty(c, i), excluded |-> Excluded(c, i),
                            healthy |-> Healthy(c, i),
                            \* (information) the directory the alias `lib` must resolve to for this file
                            alias |-> IF Rc(c) THEN AliasDir(c, i)[1] ELSE ""]],
   \* per-directory context: the driver adds the explicit-order runs and the alone runs for these cases
   rc |-> Rc(c), nalias |-> IF Rc(c) THEN Cardinality({AliasDir(c, i) : i \in Work(c)}) ELSE 0,
   kinds |-> SetToSeq(KindsOf(c)), nfaulty |-> Cardinality(FaultySet(c)), nhealthy |-> Cardinality(HealthySet(c))]

\* always-true invariant that prints the case (S->I replay input)
EmitCase == st # <<>> => IF WellFormedCase(Case) THEN PrintT("CASE " \o ToJson(CaseJson(Case))) ELSE PrintT("ILLFORMED " \o ToJson([root |-> root, fi |-> fi, st |-> st, out |-> out, ff |-> ff, cfg |-> cfg]))

\* the internal theorems, on every case
ModelTheorems == st # <<>> /\ WellFormedCase(Case) => Theorems(Case)
=============================================================================
