----------------------------- MODULE MC_Filters -----------------------------
(* Bounded instance of Filters (C20): directory trees of at most five Lua(u) files in nested         *)
(* directories x apply / skip pattern lists (absent, one string, arrays) at the top level and on     *)
(* each rule of a three-rule pipeline.  TLC model-checks the theorems of Filters on every case and   *)
(* prints the case (paths and patterns as strings AND as segments) for replay into the real code.    *)
EXTENDS Filters, Json, IOUtils

Thorough == "MODE" \in DOMAIN IOEnv /\ IOEnv["MODE"] = "thorough"

D(n) == Seg(n, "")
A  == <<D("src"), Seg("a", "lua")>>
B  == <<D("src"), Seg("b", "lua")>>
SA == <<D("src"), D("sub"), Seg("a", "lua")>>
SB == <<D("src"), D("sub"), Seg("b", "lua")>>
DC == <<D("src"), D("sub"), D("deep"), Seg("c", "lua")>>
XU == <<D("src"), Seg("x", "luau")>>
TA == <<D("src"), Seg("test_a", "lua")>>
TB == <<D("src"), Seg("test_b", "lua")>>
MN == <<D("src"), Seg("main", "lua")>>
STA == <<D("src"), D("sub"), Seg("test_a", "lua")>>
Trees == IF Thorough THEN {<<A, SA, SB, DC, XU>>, <<A, B, SA, SB, DC>>, <<B, DC>>, <<TA, TB, MN, STA, SA>>} ELSE {<<A, SA, SB, DC, XU>>, <<B, DC>>, <<TA, TB, MN, STA, SA>>}

L(n) == Lit(n, "")
Patterns == <<
  <<DStar, Lit("a", "lua")>>,                    \*  1  **/a.lua
  <<L("src"), Ext("lua")>>,                      \*  2  src/*.lua
  <<L("src"), L("sub"), Star>>,                  \*  3  src/sub/*
  <<L("src"), DStar>>,                           \*  4  src/**
  <<L("src"), L("sub"), Lit("b", "lua")>>,       \*  5  src/sub/b.lua
  <<DStar, Ext("lua")>>,                         \*  6  **/*.lua
  <<L("src"), DStar, Lit("c", "lua")>>,          \*  7  src/**/c.lua
  <<Star, Lit("a", "lua")>>,                     \*  8  */a.lua
  <<DStar>>,                                     \*  9  **
  <<Lit("a", "lua")>>,                           \* 10  a.lua          (no file: patterns match the whole path)
  <<L("src"), Star, Lit("a", "lua")>>,           \* 11  src/*/a.lua
  <<DStar, L("sub"), DStar>>,                    \* 12  **/sub/**
  <<L("src"), DStar, Lit("a", "lua")>>,          \* 13  src/**/a.lua   (`**` may match no directory)
  <<Ext("lua")>>,                                \* 14  *.lua          (one component only)
  <<L("src"), Star, Star, Ext("lua")>>,          \* 15  src/*/*/*.lua
  <<L("src"), Glob("test_*.lua")>>,              \* 16  src/test_*.lua (wildcard inside a component)
  <<DStar, Glob("te*")>>,                        \* 17  **/te*
  <<L("src"), Glob("ma?n.lua")>>,                \* 18  src/ma?n.lua
  <<Glob("s*"), L("sub"), Glob("*_a.lua")>>,     \* 19  s*/sub/*_a.lua
  <<DStar, Glob("*_?.lua")>>,                    \* 20  **/*_?.lua
  <<L("src"), L("sub"), Glob("t*")>>,            \* 21  src/sub/t*
  \* patterns whose FIRST character is a dot: a hidden directory is not the directory of the same name without the dot
  <<Glob(".*"), DStar>>,                         \* 22  .*/**          (only components starting with a dot)
  <<L(".src"), DStar>>,                          \* 23  .src/**        (another directory than src)
  <<L(".src"), L("sub"), Ext("lua")>>            \* 24  .src/sub/*.lua
>>
NP == Len(Patterns)

\* a pattern list with its spelling: form = "none" (key absent) | "one" (a single string) | "many" (an array)
PL(form, idx) == [form |-> form, pats |-> [i \in DOMAIN idx |-> Patterns[idx[i]]]]
NoList == PL("none", <<>>)
Singles == {PL("one", <<p>>) : p \in 1..NP}
Arrays == {PL("many", <<1, 5>>), PL("many", <<2, 12>>), PL("many", <<7, 8>>), PL("many", <<3>>), PL("many", <<>>), PL("many", <<10, 14>>), PL("many", <<16, 18>>), PL("many", <<5, 17>>), PL("many", <<22, 5>>), PL("many", <<23>>)}
          \cup (IF Thorough THEN {PL("many", <<p, q>>) : p \in {1, 2, 4, 6}, q \in {3, 5, 7, 11, 13}} \cup {PL("many", <<p>>) : p \in 1..NP} ELSE {})
Lists == {NoList} \cup Singles \cup Arrays
FewLists == {NoList, PL("one", <<1>>), PL("many", <<2, 12>>)}

FP(a, s) == [apply |-> a, skip |-> s]
NoFP == FP(NoList, NoList)
Few  == {FP(a, s) : a \in FewLists, s \in {NoList, PL("one", <<5>>)}} \cup (IF Thorough THEN {FP(PL("one", <<6>>), PL("many", <<1, 7>>)), FP(PL("one", <<3>>), NoList)} ELSE {})
FewTop == {NoFP, FP(PL("one", <<4>>), PL("one", <<11>>)), FP(NoList, PL("many", <<3>>)), FP(PL("many", <<1, 5>>), NoList)}

\* the cases: filters in ONE place (top level or one rule) from the rich set Lists x Lists, and filters EVERYWHERE from the
\* small sets.  Seeds partition the cases so that TLC's workers share the work: a seed state has the cases of its part as successors.
Case(kind, tree, top, r1, r2, r3, fam) == [kind |-> kind, tree |-> tree, top |-> top, rules |-> <<r1, r2, r3>>, fam |-> fam]
Seeds ==
  UNION {
    {Case("seed", tr, FP(a, NoList), NoFP, NoFP, NoFP, f) : a \in Lists, f \in {"top", "rule1", "rule2", "rule3"}}
    \cup {Case("seed", tr, tp, x, NoFP, NoFP, "all") : tp \in FewTop, x \in Few}
    : tr \in Trees}
CasesOf(sd) ==
  CASE sd.fam = "top"   -> {Case("case", sd.tree, FP(sd.top.apply, s), NoFP, NoFP, NoFP, "top") : s \in Lists}
    [] sd.fam = "rule1" -> {Case("case", sd.tree, NoFP, FP(sd.top.apply, s), NoFP, NoFP, "rule1") : s \in Lists}
    [] sd.fam = "rule2" -> {Case("case", sd.tree, NoFP, NoFP, FP(sd.top.apply, s), NoFP, "rule2") : s \in Lists}
    [] sd.fam = "rule3" -> {Case("case", sd.tree, NoFP, NoFP, NoFP, FP(sd.top.apply, s), "rule3") : s \in Lists}
    [] OTHER            -> {Case("case", sd.tree, sd.top, sd.rules[1], y, z, "all") : y \in Few, z \in Few}

VARIABLE c
Init == c \in Seeds
Next == c.kind = "seed" /\ c' \in CasesOf(c)
IsCase == c.kind = "case"

\* the abstract configuration of Filters
Cfg(x) == [apply |-> x.top.apply.pats, skip |-> x.top.skip.pats,
           rules |-> [k \in 1..3 |-> [on |-> TRUE, apply |-> x.rules[k].apply.pats, skip |-> x.rules[k].skip.pats]]]
Files == {c.tree[i] : i \in DOMAIN c.tree}
AltFilters == {<<a.pats, s.pats>> : a \in {NoList, PL("one", <<1>>)}, s \in {NoList, PL("one", <<5>>)}}

\* theorems of Filters on this case (hard invariants: they hold by design, a violation is a defect of the model)
DeletionTheorem == IsCase => \A f \in Files, k \in 1..3 : RuleFilterIsDeletion(Cfg(c), k, f) /\ RuleRunsIsItsOwnEffect(Cfg(c), k, f)
LocalityTheorem == IsCase => \A f \in Files, k \in 1..3 : \A alt \in AltFilters : FilterIsLocal(Cfg(c), k, alt[1], alt[2], f)
RootTheorem     == IsCase => \A f \in Files : RootExcludedUntouched(Cfg(c), f)

PatJson(p) == [s |-> PatStr(p), segs |-> p]
ListJson(l) == [form |-> l.form, pats |-> [i \in DOMAIN l.pats |-> PatJson(l.pats[i])]]
FPJson(x) == [apply |-> ListJson(x.apply), skip |-> ListJson(x.skip)]
\* how the INPUT location is spelled on the command line: the patterns are matched against the normalized path of the file
\* (`src/sub/a.lua`) whichever spelling is used -- the directory (`src`, `./src`), or one file of the tree given alone
\* (`src/sub/a.lua`, `./src/sub/a.lua`, `src/x/../sub/a.lua`, `src//sub/a.lua`).  The form (and, for the single-file forms, the file) is a
\* function of the case: each case is replayed under one spelling.
InputForms == <<"dir", "dotdir", "dir", "file", "dotfile", "updownfile", "dslashfile">>      \* dslashfile: `src//sub/a.lua`
SlotsUsed == Cardinality({k \in 1..3 : c.rules[k].apply.form # "none"}) + Cardinality({k \in 1..3 : c.rules[k].skip.form # "none"})
             + (IF c.top.apply.form # "none" THEN 3 ELSE 0) + (IF c.top.skip.form # "none" THEN 1 ELSE 0)
CaseMix == Len(c.tree) + 2 * SlotsUsed + Len(PathStr(c.tree[1]))
EmitCase == IsCase => PrintT("CASE " \o ToJson([
  fam |-> c.fam, inp |-> InputForms[(CaseMix % Len(InputForms)) + 1], fi |-> ((CaseMix \div Len(InputForms)) % Len(c.tree)) + 1,
  files |-> [i \in DOMAIN c.tree |-> [s |-> PathStr(c.tree[i]), segs |-> c.tree[i]]],
  top |-> FPJson(c.top),
  rules |-> [k \in 1..3 |-> FPJson(c.rules[k])],
  expect |-> [i \in DOMAIN c.tree |-> [s |-> PathStr(c.tree[i]), root |-> ShouldApply(c.tree[i], Cfg(c).apply, Cfg(c).skip),
                                        ran |-> [k \in 1..3 |-> RuleRuns(Cfg(c), k, c.tree[i])]]]]))
=============================================================================
