INIT Init
NEXT Next
INVARIANT Emit
INVARIANT AlwaysSafe
INVARIANT UncheckedUnsafeOnlyWhenKnown
