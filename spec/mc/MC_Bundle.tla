------------------------------ MODULE MC_Bundle ------------------------------
(* Bounded instance of Bundle (C05): every module graph on <= 4 files                          *)
(*   * n <= 3: EVERY directed graph (self-loops, edges back into the entry: all cyclic graphs),  *)
(*   * n  = 4: every DAG (shared and diamond dependencies),                                      *)
(*   * n  = 5: the TWIN graph 1->2, 1->3, 2->4, 3->5 -- files 2 and 3 live in sibling            *)
(*     directories and write the SAME literal (`./c` or `../c`) for their dependency, which      *)
(*     denotes file 4 for one and file 5 for the other (a require string means a file only       *)
(*     relative to the requiring file); variant with nothing at the second location,            *)
(* in which all files are reachable from the entry, x one feature:                              *)
(*   plain | dup (every call twice: second one is a cache hit / the same file through another     *)
(*   spelling) | rev (calls in reverse order) | fault(f, missing|broken|ret0|ret2|data) |       *)
(*   excl(f) (every call to f matches bundle.excludes) | shadow(f,t) (that call sits under a    *)
(*   local `require`) | nonlit(f,t) (the argument is not a literal string).                     *)
(* Each graph is one behaviour of the machine; the invariants are checked in every state, and   *)
(* the final state prints the graph as a CASE descriptor for replay into the real bundler.      *)
EXTENDS Bundle, Json, IOUtils

EnvOr(nm, dflt) == IF nm \in DOMAIN IOEnv THEN IOEnv[nm] ELSE dflt
MaxN == atoi(EnvOr("MAXN", "4"))

\* ---------------------------------------------------------------- graphs
RECURSIVE SortedSeq(_)
SortedSeq(S) == IF S = {} THEN <<>> ELSE LET m == CHOOSE x \in S : \A y \in S : x <= y IN <<m>> \o SortedSeq(S \ {m})
Rev(q) == [i \in 1..Len(q) |-> q[Len(q) + 1 - i]]
RECURSIVE Flat(_)
Flat(qq) == IF qq = <<>> THEN <<>> ELSE qq[1] \o Flat(SubSeq(qq, 2, Len(qq)))
RECURSIVE Grow(_, _)
Grow(A, S) == LET T == S \cup {e[2] : e \in {x \in A : x[1] \in S}} IN IF T = S THEN S ELSE Grow(A, T)
AllReachable(n, A) == Grow(A, {1}) = 1..n
Acyclic(n, A) == \A f \in 1..n : f \notin Grow(A, {e[2] : e \in {x \in A : x[1] = f}})
TwinAdj == {<<1, 2>>, <<1, 3>>, <<2, 4>>, <<3, 5>>}
Adjs(n) == IF n <= 3 THEN {A \in SUBSET ((1..n) \X (1..n)) : AllReachable(n, A)}
           ELSE IF n = 5 THEN {TwinAdj}
           ELSE {A \in SUBSET ({<<1, t>> : t \in 2..n} \cup {<<f, t>> \in (2..n) \X (2..n) : f # t}) : AllReachable(n, A) /\ Acyclic(n, A)}
NoFeat == [k |-> "plain", f |-> 0, t |-> 0, kind |-> ""]
TwinFeats == {[NoFeat EXCEPT !.k = "twin", !.kind = kd] : kd \in {"dot", "dotdot"}}
             \cup {[NoFeat EXCEPT !.k = "twin", !.f = 5, !.kind = kd] : kd \in {"dot", "dotdot"}}       \* nothing at the second location
Feats(n, A) == IF n = 5 THEN TwinFeats ELSE
               {NoFeat, [NoFeat EXCEPT !.k = "dup"], [NoFeat EXCEPT !.k = "rev"]}
               \cup {[NoFeat EXCEPT !.k = "fault", !.f = f, !.kind = kd] : f \in 2..n, kd \in {"missing", "broken", "ret0", "ret2", "data"}}
               \cup {[NoFeat EXCEPT !.k = "excl", !.f = f] : f \in 2..n}
               \cup {[NoFeat EXCEPT !.k = kk, !.f = e[1], !.t = e[2]] : kk \in {"shadow", "nonlit"}, e \in A}
Call(t, lit, shadow, excl) == [t |-> t, lit |-> lit, shadow |-> shadow, excl |-> excl]
MkGraph(n, A, ft) ==
  LET targets(f) == LET q == SortedSeq({e[2] : e \in {x \in A : x[1] = f}}) IN IF ft.k = "rev" THEN Rev(q) ELSE q IN
  LET mk(f, t) == Call(t, IF ft.k = "nonlit" /\ ft.f = f /\ ft.t = t THEN 0 ELSE 1,
                          IF ft.k = "shadow" /\ ft.f = f /\ ft.t = t THEN 1 ELSE 0,
                          IF ft.k = "excl" /\ ft.f = t THEN 1 ELSE 0) IN
  [ n |-> n,
    kind |-> [f \in 1..n |-> IF ft.k = "fault" /\ ft.f = f THEN ft.kind ELSE IF ft.k = "twin" /\ ft.f = f THEN "missing" ELSE "lua"],
    calls |-> [f \in 1..n |-> LET q == targets(f) IN
                 IF ft.k = "dup" THEN Flat([i \in 1..Len(q) |-> <<mk(f, q[i]), mk(f, q[i])>>]) ELSE [i \in 1..Len(q) |-> mk(f, q[i])]],
    feat |-> ft ]

\* ---------------------------------------------------------------- the machine as TLA+ variables
VARIABLES g, cache, stack, defs, errors, skip, walk, pc, inl, entered, steps
vars == <<g, cache, stack, defs, errors, skip, walk, pc, inl, entered, steps>>
St == [cache |-> cache, stack |-> stack, defs |-> defs, errors |-> errors, skip |-> skip, walk |-> walk, pc |-> pc,
       inl |-> inl, entered |-> entered, steps |-> steps]
Set(r) == /\ cache' = r.cache /\ stack' = r.stack /\ defs' = r.defs /\ errors' = r.errors /\ skip' = r.skip /\ walk' = r.walk
          /\ pc' = r.pc /\ inl' = r.inl /\ entered' = r.entered /\ steps' = r.steps + 1 /\ UNCHANGED g
\* the graph is chosen by the FIRST transition (initial states are evaluated by one thread: keep them few, let the
\* workers build the graphs): an initial state fixes only the number of files and the entry's own targets
NoGraph == [n |-> 0, kind |-> <<>>, calls |-> <<>>, feat |-> NoFeat]
McInit == /\ g = NoGraph /\ pc = "pick"
          /\ \E n \in (1..MaxN) \cup (IF MaxN >= 4 THEN {5} ELSE {}) : \E E1 \in SUBSET (1..n) : /\ (\E A \in Adjs(n) : {e[2] : e \in {x \in A : x[1] = 1}} = E1) /\ steps = n /\ skip = E1
          /\ cache = <<>> /\ stack = <<>> /\ defs = <<>> /\ errors = <<>> /\ walk = <<>> /\ inl = {} /\ entered = <<>>
Pick == /\ pc = "pick"
        /\ \E A \in Adjs(steps) : /\ {e[2] : e \in {x \in A : x[1] = 1}} = skip
                                  /\ \E ft \in Feats(steps, A) : g' = MkGraph(steps, A, ft)
        /\ LET r == InitSt(g') IN /\ cache' = r.cache /\ stack' = r.stack /\ defs' = r.defs /\ errors' = r.errors /\ skip' = r.skip
                                   /\ walk' = r.walk /\ pc' = r.pc /\ inl' = r.inl /\ entered' = r.entered /\ steps' = r.steps
NoMatch       == En_NoMatch(g, St) /\ Set(Do_NoMatch(g, St))
Match         == En_Match(g, St) /\ Set(Do_Match(g, St))
Excluded      == En_Excluded(g, St) /\ Set(Do_Excluded(g, St))
LocateFail    == En_LocateFail(g, St) /\ Set(Do_LocateFail(g, St))
Locate        == En_Locate(g, St) /\ Set(Do_Locate(g, St))
SkipErrored   == En_SkipErrored(g, St) /\ Set(Do_SkipErrored(g, St))
CacheHit      == En_CacheHit(g, St) /\ Set(Do_CacheHit(g, St))
CycleDetected == En_CycleDetected(g, St) /\ Set(Do_CycleDetected(g, St))
Enter         == En_Enter(g, St) /\ Set(Do_Enter(g, St))
LeaveOk       == En_LeaveOk(g, St) /\ Set(Do_LeaveOk(g, St))
LeaveErr      == En_LeaveErr(g, St) /\ Set(Do_LeaveErr(g, St))
Finish        == En_Finish(g, St) /\ Set(Do_Finish(g, St))
Stutter       == pc = "done" /\ UNCHANGED vars           \* the only state without a successor is the final one (deadlock check on)
McNext == Pick \/ NoMatch \/ Match \/ Excluded \/ LocateFail \/ Locate \/ SkipErrored \/ CacheHit \/ CycleDetected \/ Enter
          \/ LeaveOk \/ LeaveErr \/ Finish \/ Stutter

\* ---------------------------------------------------------------- invariants
CacheInjective  == pc = "pick" \/ (Injective(g, St) /\ DefsMatchCache(g, St))
BodyEnteredOnce == pc = "pick" \/ EnteredOnce(g, St)
Termination     == pc = "pick" \/ StackBounded(g, St)                      \* Len(stack) <= |files|, no revisit, bounded step count
DefsOrdered     == pc = "pick" \/ DepsPrecede(g, St)
ErrorsNamed     == pc = "pick" \/ ErrorsWellNamed(g, St)
Outcome         == pc = "pick" \/ AtDone(g, St)
\* the machine and its functional form (used by the trace judge) agree
FinalAgrees     == pc = "done" => LET r == Final(g) IN r.errors = errors /\ r.defs = defs /\ r.inl = inl /\ r.pc = "done"
Contract        == pc = "pick" \/ ShadowRespected(g, St)                   \* only with DevModuleScopeNotTracked = FALSE
DeviationOnlyAtTrigger == pc = "pick" \/ ShadowRespected(g, St) \/ ShadowedCallInModule(g)

B(x) == IF x THEN 1 ELSE 0
EmitCase == pc = "done" =>
  PrintT("CASE " \o ToJson([n |-> g.n, kind |-> g.kind, calls |-> g.calls, feat |-> g.feat,
                            must_error |-> B(errors # <<>>), errors |-> errors, ndefs |-> Len(defs),
                            deforder |-> [i \in 1..Len(defs) |-> defs[i].path],
                            cyclic |-> B(HasCycle(g)), shadow_in_module |-> B(ShadowedCallInModule(g) /\ ~ShadowRespected(g, St))]))
=============================================================================
