------------------------------ MODULE MC_LuaOps ------------------------------
(* Model-checks LuaOps!PrintParse over the tree families below and emits every tree as a     *)
(* CASE descriptor (replayed through the real generators by `dlv gen`).                      *)
(*   d2       every tree of depth <= 2 over the 16 binary operators, not # -, if-expression, *)
(*            type assertion and explicit parentheses, leaf x                      (8 625)   *)
(*   neg      the same trees with every leaf a number node whose sign bit is set   (8 625)   *)
(*   leafpair every operator x every pair of leaf kinds (lexical adjacency)        (1 072)   *)
(*   d3x      depth 3 through if-expression / assertion / parentheses              (3 036)   *)
(*   d3       depth 3: one operand of the root is any depth-2 tree over the plain            *)
(*            operators, the other a leaf; unary roots over depth-2 trees        (226 100)   *)
(*   trail    "dangling tail" trees: a spine of 2..3 operators (each next operator the RIGHT,  *)
(*            resp. LEFT, operand of the previous one, unary / if / assertion / parentheses    *)
(*            links included) under an outer operator, on either side -- the shapes the        *)
(*            printer's walks (ends_with_if_expression, ends_with_type_cast..., ends_with_     *)
(*            prefix) follow; quick: one operator per precedence class, TRAILFULL=1: all       *)
(* Environment: D3=1 adds family d3; ONLY=<family> restricts the run to one family.           *)
EXTENDS LuaOps, LuaStr, FiniteSets
EnvIs(k, v) == k \in DOMAIN IOEnv /\ IOEnv[k] = v
Fams == IF "ONLY" \in DOMAIN IOEnv THEN {IOEnv.ONLY}
        ELSE {"d2", "neg", "leafpair", "d3x", "trail"} \cup (IF EnvIs("D3", "1") THEN {"d3"} ELSE {})
AllUn == UnOps \cup XOps
X  == {<<"x">>}
T1 == Grow(X, AllUn, BinOps)
T2 == Grow(T1, AllUn, BinOps)
P1 == Grow(X, UnOps, BinOps)
P2 == Grow(P1, UnOps, BinOps)
Deep2 == P2 \ P1
Tops == BinOps \cup AllUn
\* ---- trail: spines
RepOps == {"or", "and", "<", "..", "+", "*", "^", "not", "u-", "ifx", "cast", "par"}
TrailLinks == IF EnvIs("TRAILFULL", "1") THEN BinOps \cup AllUn ELSE RepOps
RECURSIVE Spine(_, _)
Spine(links, side) ==
  IF links = <<>> THEN <<"x">>
  ELSE LET sub == Spine(Tail(links), side) IN LET o == links[1] IN
       IF o \in BinOps THEN (IF side = "R" THEN <<o, <<"x">>, sub>> ELSE <<o, sub, <<"x">>>>) ELSE <<o, sub>>
Spines == {Spine(l, sd) : l \in (TrailLinks \X TrailLinks) \cup (TrailLinks \X TrailLinks \X TrailLinks), sd \in {"L", "R"}}
TrailOf(top) == IF top \notin TrailLinks THEN {}
                ELSE IF top \in BinOps THEN {<<top, sp, <<"x">>>> : sp \in Spines} \cup {<<top, <<"x">>, sp>> : sp \in Spines}
                ELSE {<<top, sp>> : sp \in Spines}
\* members of a family whose root operator is `top` (the split by root operator is only there to let TLC's
\* workers generate and judge the trees in parallel); leaves are filed under the root "not"
Members(f, top) ==
  IF f = "d2" THEN {t \in T2 : IF IsLeaf(t) THEN top = "not" ELSE t[1] = top}
  ELSE IF f = "neg" THEN {Subst(t, "negn") : t \in {u \in T2 : IF IsLeaf(u) THEN top = "not" ELSE u[1] = top}}
  ELSE IF f = "leafpair" THEN
       (IF top \in BinOps THEN {<<top, <<a>>, <<b>>>> : a \in LeafKinds, b \in LeafKinds} ELSE {<<top, <<a>>>> : a \in LeafKinds})
  ELSE IF f = "d3x" THEN
       (IF top \in BinOps THEN {<<top, <<u, a>>, <<"x">>>> : u \in XOps, a \in T1} \cup {<<top, <<"x">>, <<u, a>>>> : u \in XOps, a \in T1}
        ELSE {<<top, <<v, a>>>> : v \in AllUn, a \in T1})
  ELSE IF f = "trail" THEN TrailOf(top)
  ELSE IF f = "d3" THEN
       (IF top \in BinOps THEN {<<top, a, <<"x">>>> : a \in Deep2} \cup {<<top, <<"x">>, a>> : a \in Deep2}
        ELSE IF top \in UnOps THEN {<<top, a>> : a \in Deep2} ELSE {})
  ELSE {}
VARIABLES fam, top, t
Init == fam \in Fams /\ top \in Tops /\ t = <<"SEED">>
Next == t = <<"SEED">> /\ t' \in Members(fam, top) /\ UNCHANGED <<fam, top>>
\* the theorem (no exemption: F-C02-a is repaired; under DEV_NEG_ATOM=1 it fails exactly on Trigger_F_C02_a)
PrintParseOrKnown == t = <<"SEED">> \/ PrintParse(t) \/ (DevNegAtom /\ Trigger_F_C02_a(t))
Emit == t = <<"SEED">> \/ EmitLine("CASE " \o JsonOf([fam |-> fam, tree |-> t, pp |-> PrintParse(t), trig |-> Trigger_F_C02_a(t)]))
=============================================================================
