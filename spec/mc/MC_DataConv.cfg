INIT McInit
NEXT McNext
INVARIANT KeyRuleSound
INVARIANT KeyRuleCompleteReport
INVARIANT DataWellFormed
INVARIANT EmitCase
