----------------------------- MODULE MC_Positions -----------------------------
(* Enumerates the programs of Positions.tla.  MODE (environment) = "flat" (default): construct x position, one nesting  *)
(* level; MODE = "deep": statement position [ expression position [ wrapper [ expression construct ] ] ], of which only  *)
(* the residue class OFFSET modulo STRIDE is rendered (sampling inside the specification).                               *)
EXTENDS Positions, Json, IOUtils
Mode == IF "MODE" \in DOMAIN IOEnv THEN IOEnv.MODE ELSE "flat"
Stride == IF "STRIDE" \in DOMAIN IOEnv THEN atoi(IOEnv.STRIDE) ELSE 1
Offset == IF "OFFSET" \in DOMAIN IOEnv THEN atoi(IOEnv.OFFSET) ELSE 0
VARIABLES kind, pi, ci, si, wi
SibStride == IF "SIBSTRIDE" \in DOMAIN IOEnv THEN atoi(IOEnv.SIBSTRIDE) ELSE 1
InitFlat ==
  \/ /\ si = 0 /\ wi = 0
     /\ \/ kind = "expr" /\ pi \in 1..Len(ExprPositions) /\ ci \in 1..Len(ExprConstructs)
        \/ kind = "stmt" /\ pi \in 1..Len(StmtPositions) /\ ci \in 1..Len(StmtConstructs)
        \/ kind = "expr-in-stmt" /\ pi \in 1..Len(StmtPositions) /\ ci \in 1..Len(ExprConstructs)
  \* a sibling statement before (si = 1) / after (si = 2) the construct; wi = the sibling
  \/ /\ kind = "sib" /\ pi \in SibPositions /\ ci \in 1..Len(StmtConstructs) /\ wi \in 1..Len(Siblings) /\ si \in {1, 2}
     /\ (pi * 7919 + ci * 104729 + wi * 1299709 + si * 15485863) % SibStride = Offset % SibStride
  \/ /\ kind = "sibcont" /\ pi \in SibPositions /\ ci \in 1..Len(SibContinue) /\ wi \in 1..Len(Siblings) /\ si = 0
InitDeep ==
  /\ kind = "deep"
  /\ si \in 1..Len(StmtPositions) /\ pi \in 1..Len(ExprPositions) /\ wi \in 1..Len(Wrappers) /\ ci \in 1..Len(ExprConstructs)
  /\ (si * 7919 + pi * 104729 + wi * 1299709 + ci * 15485863) % Stride = Offset % Stride
  /\ (IsReturnPos(ExprPositions[pi]) => si = 1)          \* a `return` ends its block: only at the top level
Init == IF Mode = "deep" THEN InitDeep ELSE InitFlat
Next == UNCHANGED <<kind, pi, ci, si, wi>>
Construct == IF kind \in {"stmt", "sib"} THEN StmtConstructs[ci][1] ELSE IF kind = "sibcont" THEN "continue_stmt" ELSE ExprConstructs[ci][1]
Src == IF kind = "expr" THEN ExprCase(ExprPositions[pi], ExprConstructs[ci][2])
       ELSE IF kind = "stmt" THEN StmtCase(StmtPositions[pi], StmtConstructs[ci][2])
       ELSE IF kind = "sib" THEN SibCase(StmtPositions[pi], Siblings[wi], StmtConstructs[ci][2], si)
       ELSE IF kind = "sibcont" THEN SibContCase(StmtPositions[pi], Siblings[wi], SibContinue[ci])
       ELSE IF kind = "deep" THEN DeepCase(StmtPositions[si], ExprPositions[pi], Wrappers[wi], ExprConstructs[ci][2])
       ELSE ExprInStmtCase(StmtPositions[pi], ExprConstructs[ci][2])
Emit == PrintT("CASE " \o ToJson([kind |-> kind, position |-> pi, construct_index |-> ci, construct |-> Construct, src |-> Src, stmt_position |-> si, wrapper |-> wi]))
=============================================================================
