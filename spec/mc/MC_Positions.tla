----------------------------- MODULE MC_Positions -----------------------------
(* Enumerates the programs of Positions.tla.  MODE (environment) = "flat" (default): construct x position, one nesting  *)
(* level; MODE = "deep": statement position [ expression position [ wrapper [ expression construct ] ] ], of which only  *)
(* the residue class OFFSET modulo STRIDE is rendered (sampling inside the specification).                               *)
EXTENDS Positions, Json, IOUtils
Mode == IF "MODE" \in DOMAIN IOEnv THEN IOEnv.MODE ELSE "flat"
Stride == IF "STRIDE" \in DOMAIN IOEnv THEN atoi(IOEnv.STRIDE) ELSE 1
Offset == IF "OFFSET" \in DOMAIN IOEnv THEN atoi(IOEnv.OFFSET) ELSE 0
VARIABLES kind, pi, ci, si, wi
InitFlat ==
  /\ si = 0 /\ wi = 0
  /\ \/ kind = "expr" /\ pi \in 1..Len(ExprPositions) /\ ci \in 1..Len(ExprConstructs)
     \/ kind = "stmt" /\ pi \in 1..Len(StmtPositions) /\ ci \in 1..Len(StmtConstructs)
     \/ kind = "expr-in-stmt" /\ pi \in 1..Len(StmtPositions) /\ ci \in 1..Len(ExprConstructs)
InitDeep ==
  /\ kind = "deep"
  /\ si \in 1..Len(StmtPositions) /\ pi \in 1..Len(ExprPositions) /\ wi \in 1..Len(Wrappers) /\ ci \in 1..Len(ExprConstructs)
  /\ (si * 7919 + pi * 104729 + wi * 1299709 + ci * 15485863) % Stride = Offset % Stride
  /\ (IsReturnPos(ExprPositions[pi]) => si = 1)          \* a `return` ends its block: only at the top level
Init == IF Mode = "deep" THEN InitDeep ELSE InitFlat
Next == UNCHANGED <<kind, pi, ci, si, wi>>
Construct == IF kind = "stmt" THEN StmtConstructs[ci][1] ELSE ExprConstructs[ci][1]
Src == IF kind = "expr" THEN ExprCase(ExprPositions[pi], ExprConstructs[ci][2])
       ELSE IF kind = "stmt" THEN StmtCase(StmtPositions[pi], StmtConstructs[ci][2])
       ELSE IF kind = "deep" THEN DeepCase(StmtPositions[si], ExprPositions[pi], Wrappers[wi], ExprConstructs[ci][2])
       ELSE ExprInStmtCase(StmtPositions[pi], ExprConstructs[ci][2])
Emit == PrintT("CASE " \o ToJson([kind |-> kind, position |-> pi, construct_index |-> ci, construct |-> Construct, src |-> Src, stmt_position |-> si, wrapper |-> wi]))
=============================================================================
