----------------------------- MODULE MC_Positions -----------------------------
EXTENDS Positions, Json, IOUtils
VARIABLES kind, pi, ci
Init ==
  \/ kind = "expr" /\ pi \in 1..Len(ExprPositions) /\ ci \in 1..Len(ExprConstructs)
  \/ kind = "stmt" /\ pi \in 1..Len(StmtPositions) /\ ci \in 1..Len(StmtConstructs)
  \/ kind = "expr-in-stmt" /\ pi \in 1..Len(StmtPositions) /\ ci \in 1..Len(ExprConstructs)
Next == UNCHANGED <<kind, pi, ci>>
Construct == IF kind = "stmt" THEN StmtConstructs[ci][1] ELSE ExprConstructs[ci][1]
Src == IF kind = "expr" THEN ExprCase(ExprPositions[pi], ExprConstructs[ci][2])
       ELSE IF kind = "stmt" THEN StmtCase(StmtPositions[pi], StmtConstructs[ci][2])
       ELSE ExprInStmtCase(StmtPositions[pi], ExprConstructs[ci][2])
Emit == PrintT("CASE " \o ToJson([kind |-> kind, position |-> pi, construct_index |-> ci, construct |-> Construct, src |-> Src]))
=============================================================================
