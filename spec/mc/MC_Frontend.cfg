CONSTANTS
  Sources <- MC_Sources
  Modules <- MC_Modules
  DirOf <- MC_DirOf
  Dirs <- MC_Dirs
  Requires <- MC_Requires
  Reach <- ReachOf
  Configs <- MC_Configs
  SerKey <- MC_SerKey
  Eff <- MC_Eff
  MaxVer = 2
  MaxIdx = 4
  MaxSteps <- MC_MaxSteps
  DevEarlyReturn <- MC_DevEarlyReturn
  DevDirKeepsExt <- MC_DevDirKeepsExt
  DevCleanAfterWrite <- MC_DevCleanAfterWrite
  DevDepsOnSuccessOnly <- MC_DevDepsOnSuccessOnly
  DevCreateNoNotify <- MC_DevCreateNoNotify
  DevRmdirNoRestart <- MC_DevRmdirNoRestart
  DevDepsOnExistingOnly <- MC_DevDepsOnExistingOnly
SPECIFICATION HSpec
VIEW View
CONSTRAINT NotTainted
INVARIANT EmitHistory
INVARIANT NoPanic
INVARIANT IncrementalEqualsFresh
