INIT Init
NEXT Next
INVARIANT ModelSane
INVARIANT RoundTripHolds
INVARIANT StrictHolds
INVARIANT InjectiveHolds
INVARIANT RoundTripReport
INVARIANT StrictReport
INVARIANT InjectiveReport
INVARIANT EmitCase
