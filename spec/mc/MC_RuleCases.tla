----------------------------- MODULE MC_RuleCases -----------------------------
(* Enumerates the cases of RuleCases.tla for one group (environment GROUP = c01 | c06 | c16 | c17). *)
EXTENDS RuleCases, Json, IOUtils
Group == IF "GROUP" \in DOMAIN IOEnv THEN IOEnv.GROUP ELSE "c01"
Stmts == CASE Group = "c01" -> C01Stmts [] Group = "c06" -> C06Stmts [] Group = "c16" -> C16Stmts [] Group = "c17" -> C17Stmts [] OTHER -> <<>>
Exprs == IF Group = "c01" THEN C01Exprs ELSE <<>>
VARIABLES kind, ci, ei
Init ==
  \/ kind = "stmt" /\ ci = 0 /\ ei \in 1..Len(Stmts)
  \/ kind = "expr" /\ ci \in 1..Len(ExprContexts) /\ ei \in 1..Len(Exprs)
Next == UNCHANGED <<kind, ci, ei>>
Src == IF kind = "stmt" THEN Wrap(Stmts[ei]) ELSE ExprCase(ExprContexts[ci], Exprs[ei])
Emit == PrintT("CASE " \o ToJson([group |-> Group, kind |-> kind, ctx |-> ci, redex |-> ei,
                                   body |-> IF kind = "stmt" THEN Stmts[ei] ELSE ExprContexts[ci][1] \o Exprs[ei] \o ExprContexts[ci][2],
                                   src |-> Src]))
=============================================================================
