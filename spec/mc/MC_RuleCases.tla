----------------------------- MODULE MC_RuleCases -----------------------------
(* Enumerates the cases of RuleCases.tla (hand-listed contexts x redexes) and of RuleProducts.tla (generated *)
(* operand-order families) for one group (environment GROUP = c01 | c06 | c16 | c17, TIER = quick | thorough). *)
EXTENDS RuleProducts, Json, IOUtils
Group == IF "GROUP" \in DOMAIN IOEnv THEN IOEnv.GROUP ELSE "c01"
Tier == IF "TIER" \in DOMAIN IOEnv THEN IOEnv.TIER ELSE "quick"
Stmts == CASE Group = "c01" -> C01Stmts [] Group = "c06" -> C06Stmts [] Group = "c16" -> C16Stmts [] Group = "c17" -> C17Stmts [] OTHER -> <<>>
Exprs == IF Group = "c01" THEN C01Exprs ELSE <<>>
\* kind = "stmt" / "expr": hand-listed; kind = "fam": a seed state per family whose successors are its members (kind "prod")
VARIABLES kind, ci, ei, body, fam
Init ==
  \/ kind = "stmt" /\ ci = 0 /\ ei \in 1..Len(Stmts) /\ body = "" /\ fam = ""
  \/ kind = "expr" /\ ci \in 1..Len(ExprContexts) /\ ei \in 1..Len(Exprs) /\ body = "" /\ fam = ""
  \/ kind = "fam" /\ ci = 0 /\ ei = 0 /\ body = "" /\ fam \in FamiliesOf(Group)
Next == kind = "fam" /\ kind' = "prod" /\ body' \in Family(fam, Tier) /\ UNCHANGED <<ci, ei, fam>>
Body == IF kind = "stmt" THEN Stmts[ei] ELSE IF kind = "expr" THEN ExprContexts[ci][1] \o Exprs[ei] \o ExprContexts[ci][2] ELSE body
Emit == kind = "fam" \/ PrintT("CASE " \o ToJson([group |-> Group, kind |-> (IF kind = "prod" THEN "stmt" ELSE kind), ctx |-> ci, redex |-> ei, fam |-> fam,
                                   body |-> Body, src |-> Wrap(Body)]))
=============================================================================
