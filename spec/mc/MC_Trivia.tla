------------------------------ MODULE MC_Trivia ------------------------------
(* Enumerates the trivia placements of Trivia.tla and prints each rendered source text. *)
(* MODE (environment): "single" = one trivia in one gap; "same" = two trivia in the same *)
(* gap; "adjacent" = one trivia in each of two neighbouring gaps; "eof" = end-of-file     *)
(* variants.                                                                             *)
EXTENDS Trivia, Json, IOUtils
Mode == IF "MODE" \in DOMAIN IOEnv THEN IOEnv.MODE ELSE "single"
VARIABLES tp, g, k1, k2
vars == <<tp, g, k1, k2>>
Toks == Templates[tp]
Init ==
  /\ tp \in 1..Len(Templates)
  /\ g \in 0..Len(Templates[tp])
  /\ k1 \in 1..NKinds
  /\ k2 \in (IF Mode \in {"same", "adjacent"} THEN 1..NKinds ELSE IF Mode = "eof" THEN 1..Len(EofKinds) ELSE {0})
  /\ (Mode = "adjacent" => g < Len(Templates[tp]))
  /\ (Mode = "eof" => g = Len(Templates[tp]) /\ k1 = 1)
Next == UNCHANGED vars
\* two trivia in one gap: a line comment must stay terminated, so the pair is simply concatenated (k1 ends with \n when it is a line comment)
Text ==
  LET base == BaseGap(Toks) IN
  IF Mode = "single" THEN Rendered(Toks, Place(Toks, base, g, Kinds[k1]))
  ELSE IF Mode = "same" THEN Rendered(Toks, Place(Toks, base, g, Kinds[k1] \o Kinds[k2]))
  ELSE IF Mode = "adjacent" THEN Rendered(Toks, Place(Toks, Place(Toks, base, g, Kinds[k1]), g + 1, Kinds[k2]))
  ELSE Rendered(Toks, [base EXCEPT ![Len(Toks)] = EofKinds[k2]])
Emit == PrintT("CASE " \o ToJson([tpl |-> tp, gap |-> g, k1 |-> k1, k2 |-> k2, mode |-> Mode, src |-> Text]))
=============================================================================
