------------------------------ MODULE MC_Trivia ------------------------------
(* Enumerates the trivia placements of Trivia.tla and prints each rendered source text. *)
(* MODE (environment): "single" = one trivia in one gap; "same" = two trivia in the same *)
(* gap; "adjacent" = one trivia in each of two neighbouring gaps; "eof" = end-of-file     *)
(* variants.                                                                             *)
EXTENDS Trivia, Json, IOUtils
Mode == IF "MODE" \in DOMAIN IOEnv THEN IOEnv.MODE ELSE "single"
\* STRIDE / OFFSET (environment): only the placements whose index is OFFSET modulo STRIDE are rendered (quick tier: the pair
\* modes are sampled here, before rendering, instead of being enumerated and thrown away)
Stride == IF "STRIDE" \in DOMAIN IOEnv THEN atoi(IOEnv.STRIDE) ELSE 1
Offset == IF "OFFSET" \in DOMAIN IOEnv THEN atoi(IOEnv.OFFSET) ELSE 0
VARIABLES tp, g, k1, k2
vars == <<tp, g, k1, k2>>
Toks == IF tp <= 0 THEN <<>> ELSE Templates[tp]
InitEndings == tp = 0 /\ g \in 1..Len(Endings) /\ k1 = 0 /\ k2 = 0
\* MODE = "created": one state per created ending (tp = -1, g = index)
InitCreated == tp = -1 /\ g \in 1..Len(CreatedEndings) /\ k1 = 0 /\ k2 = 0
InitPlacements ==
  /\ tp \in 1..Len(Templates)
  /\ g \in 0..Len(Templates[tp])
  /\ k1 \in 1..NKinds
  /\ k2 \in (IF Mode \in {"same", "adjacent"} THEN 1..NKinds ELSE IF Mode = "eof" THEN 1..Len(EofKinds) ELSE {0})
  /\ (Mode = "adjacent" => g < Len(Templates[tp]))
  /\ (Mode = "eof" => g = Len(Templates[tp]) /\ k1 = 1)
  /\ (tp * 7919 + g * 104729 + k1 * 1299709 + k2 * 15485863) % Stride = Offset % Stride
Next == UNCHANGED vars
\* MODE = "endings": one state per ending (tp = 0, g = index)
\* two trivia in one gap: a line comment must stay terminated, so the pair is simply concatenated (k1 ends with \n when it is a line comment)
Text ==
  LET base == BaseGap(Toks) IN
  IF Mode = "single" THEN Rendered(Toks, Place(Toks, base, g, Kinds[k1]))
  ELSE IF Mode = "same" THEN Rendered(Toks, Place(Toks, base, g, Kinds[k1] \o Kinds[k2]))
  ELSE IF Mode = "adjacent" THEN Rendered(Toks, Place(Toks, Place(Toks, base, g, Kinds[k1]), g + 1, Kinds[k2]))
  ELSE Rendered(Toks, [base EXCEPT ![Len(Toks)] = EofKinds[k2]])
Gaps ==
  LET base == BaseGap(Toks) IN
  IF Mode = "single" THEN Place(Toks, base, g, Kinds[k1])
  ELSE IF Mode = "same" THEN Place(Toks, base, g, Kinds[k1] \o Kinds[k2])
  ELSE IF Mode = "adjacent" THEN Place(Toks, Place(Toks, base, g, Kinds[k1]), g + 1, Kinds[k2])
  ELSE [base EXCEPT ![Len(Toks)] = EofKinds[k2]]
\* tspans: byte ranges (1-based, inclusive) of the type regions of the rendered text (empty for the untyped templates)
Init == IF Mode = "endings" THEN InitEndings ELSE IF Mode = "created" THEN InitCreated ELSE InitPlacements
Emit == IF tp = -1 THEN PrintT("CASE " \o ToJson([tpl |-> -1, gap |-> g, k1 |-> 0, k2 |-> 0, mode |-> Mode, pre |-> CreatedEndings[g][1], src |-> CreatedEndings[g][2], tspans |-> <<>>])) ELSE
        IF tp = 0 THEN PrintT("CASE " \o ToJson([tpl |-> 0, gap |-> g, k1 |-> 0, k2 |-> 0, mode |-> Mode, src |-> Endings[g], tspans |-> <<>>])) ELSE
        PrintT("CASE " \o ToJson([tpl |-> tp, gap |-> g, k1 |-> k1, k2 |-> k2, mode |-> Mode, src |-> Text, tspans |-> ByteSpans(tp, Toks, Gaps)]))
=============================================================================
