----------------------------- MODULE MC_Roblox -----------------------------
(* Bounded instance of RobloxRequire.  Three families of cases:                                  *)
(*   sm  every sourcemap tree with <= MAXN nodes (DFS-canonical shapes) over the name alphabet    *)
(*       {a, b, Parent, Name, "a b"} (and up to MAXNS nodes over its first ALPHAS names), three   *)
(*       kinds of root (a ModuleScript project, a Folder project, a DataModel whose children are  *)
(*       services); every (S, T) pair of script-owning nodes; the indexing styles;                *)
(*   fs  no sourcemap: source x target x context files (<= MAXCTX) x current mode x style, the    *)
(*       instance tree being the one Rojo builds from the files;                                  *)
(*   sp  hand-picked cases: where the sourcemap file lives and how the location is spelt, files   *)
(*       owned by two nodes or by none, names ending in `.lua`, keywords, short request forms.    *)
(* For every case TLC evaluates the THEOREM of RobloxRequire on the transcription (design level;  *)
(* a failure outside the named limits is printed as a DESIGN line) and prints the case as a CASE *)
(* line for replay into the real rule.                                                            *)
EXTENDS RobloxRequire, Json, IOUtils

EnvInt(name, default) == IF name \in DOMAIN IOEnv THEN atoi(IOEnv[name]) ELSE default
MaxN   == EnvInt("MAXN", 4)      \* full alphabet up to this many nodes
MaxNS  == EnvInt("MAXNS", 5)     \* reduced alphabet up to this many nodes
Alphas == EnvInt("ALPHAS", 2)    \* size of the reduced alphabet
WfcN   == EnvInt("WFCN", 4)      \* wait_for_child on trees up to this many nodes (same code path as find_first_child)
MaxNP  == EnvInt("MAXNP", 6)     \* DataModel trees up to this many nodes (the game:GetService route needs room)
MaxCtx == EnvInt("MAXCTX", 2)
MaxOf(a, b) == IF a >= b THEN a ELSE b

JoinPath(p) == IF p = <<>> THEN "" ELSE
  LET F[i \in 1..Len(p)] == IF i = 1 THEN p[1] ELSE F[i - 1] \o "/" \o p[i] IN F[Len(p)]

(* ------------------------------------------------------------------ family sm *)
\* names by priority: a (can be duplicated), Parent (a member whose value is an instance), b (a Folder: owns no file),
\* "a b" (not an identifier), Name (a member whose value is not an instance)
NamePriority == <<"a", "Parent", "b", "a b", "Name">>
AlphabetFor(n) == {NamePriority[i] : i \in 1..(IF n <= MaxN THEN 5 ELSE Alphas)}

\* ordered rooted trees on n nodes, one parent vector per tree: nodes numbered in depth-first pre-order, so the parent
\* of node i is node i-1 or one of its ancestors
RECURSIVE AncSelfPv(_, _)
AncSelfPv(pv, v) == IF v = 0 THEN {} ELSE {v} \cup AncSelfPv(pv, pv[v])
ParentVecs(n) == {pv \in [1..n -> 0..n - 1] : /\ pv[1] = 0
                                              /\ \A i \in 2..n : pv[i] < i /\ pv[i] >= 1
                                              /\ \A i \in 2..n : pv[i] \in AncSelfPv(pv, i - 1)}
RootKinds == {"module", "folder", "place"}

ServiceFor(x) == CASE x = "a" -> [name |-> "ReplicatedStorage", cls |-> "ReplicatedStorage"]
                   [] x = "b" -> [name |-> "ServerStorage", cls |-> "ServerStorage"]
                   [] x = "Parent" -> [name |-> "Parent", cls |-> "Workspace"]             \* renamed services
                   [] x = "Name" -> [name |-> "Name", cls |-> "Lighting"]
                   [] OTHER -> [name |-> x, cls |-> "StarterPlayer"]

Num(k) == <<"1", "2", "3", "4", "5", "6", "7", "8">>[k]
HasChildren(pv, n, k) == \E j \in 1..n : pv[j] = k
\* files of node k, relative to the directory of the sourcemap.  A node named b is a Folder; every other node is a
\* ModuleScript: a leaf owns m<k>.lua / m<k>.luau, an inner node owns m<k>/init.lua(u) plus its meta file (in either order)
NodeFiles(pv, n, k, name) ==
  IF name = "b" THEN <<>>
  ELSE IF HasChildren(pv, n, k)
    THEN (IF k % 2 = 1 THEN << <<"src", "m" \o Num(k), "init.lua">>, <<"src", "m" \o Num(k), "init.meta.json">> >>
          ELSE << <<"src", "m" \o Num(k), "init.meta.json">>, <<"src", "m" \o Num(k), "init.luau">> >>)
    ELSE << <<"src", "m" \o Num(k) \o (IF k % 2 = 1 THEN ".lua" ELSE ".luau")>> >>
IsScriptPath(p) == EndsWith(Last(p), ".lua") \/ EndsWith(Last(p), ".luau")
ScriptOf(files) == LET m == {i \in 1..Len(files) : IsScriptPath(files[i])} IN IF m = {} THEN <<>> ELSE files[MinOf(m)]

SmTree(n, pv, nm, rk) ==
  [k \in 1..n |->
     IF k = 1 THEN
       CASE rk = "module" -> [name |-> "Project", cls |-> "ModuleScript", parent |-> 0,
                              files |-> << <<"src", "init.lua">>, <<"default.project.json">> >>]
         [] rk = "folder" -> [name |-> "Project", cls |-> "Folder", parent |-> 0, files |-> << <<"default.project.json">> >>]
         [] OTHER         -> [name |-> "Place", cls |-> "DataModel", parent |-> 0, files |-> << <<"default.project.json">> >>]
     ELSE IF rk = "place" /\ pv[k] = 1 THEN
       [name |-> ServiceFor(nm[k]).name, cls |-> ServiceFor(nm[k]).cls, parent |-> 1, files |-> <<>>]
     ELSE LET fs == NodeFiles(pv, n, k, nm[k]) IN
       [name |-> nm[k], cls |-> IF fs = <<>> THEN "Folder" ELSE "ModuleScript", parent |-> pv[k], files |-> fs]]

WellFormed(n, pv, nm, rk) ==
  rk = "place" => \A i, j \in 2..n : (i < j /\ pv[i] = 1 /\ pv[j] = 1) => nm[i] # nm[j]     \* one service per class

Styles(n) == {"find_first_child", "property"} \cup (IF n <= WfcN THEN {"wait_for_child"} ELSE {})

\* the require written in S that path mode resolves to T: the explicit file name, relative to the directory of S
ReqFor(cur, s, t) ==
  LET base == IF cur = "luau" /\ IsModuleFolderName(s) THEN Front(Front(s)) ELSE Front(s) IN
  LET d == DiffPaths(t, base) IN
  JoinPath(IF d = <<>> \/ d[1] # ".." THEN <<".">> \o d ELSE d)

RECURSIVE Concat(_)
Concat(ss) == IF ss = <<>> THEN <<>> ELSE ss[1] \o Concat(Tail(ss))
SmCases(n, pv, nm, rk) ==
  LET tree == SmTree(n, pv, nm, rk) IN
  LET owners == {k \in 1..n : ScriptOf(tree[k].files) # <<>>} IN
  LET allFiles == Concat([k \in 1..n |-> tree[k].files]) IN
  { [fam |-> "sm", cur |-> "path", style |-> st,
     files |-> allFiles,
     src |-> ScriptOf(tree[s].files), tgt |-> ScriptOf(tree[t].files),
     req |-> ReqFor("path", ScriptOf(tree[s].files), ScriptOf(tree[t].files)),
     sm |-> 1, smpath |-> <<"sourcemap.json">>, prefix |-> "", nodes |-> tree, order |-> <<>>]
    : s \in owners, t \in owners, st \in Styles(n) }

(* ------------------------------------------------------------------ family fs *)
FsSources == << <<"src", "a.lua">>, <<"src", "init.lua">>, <<"src", "sub", "init.luau">>, <<"src", "sub", "b.lua">>,
                <<"src", "sub", "deep", "c.luau">>, <<"src", "main.server.lua">>, <<"src", "sub", "init.server.lua">> >>
FsTargets == << <<"src", "a.lua">>, <<"src", "init.lua">>, <<"src", "sub", "init.luau">>, <<"src", "sub", "b.lua">>,
                <<"src", "sub", "deep", "c.luau">>, <<"src", "data.json">>, <<"src", "a b.lua">>, <<"src", "sub", "Parent.lua">> >>
FsExtras  == { <<"src", "init.lua">>, <<"src", "sub", "init.luau">>, <<"src", "sub", "deep", "init.lua">>,
               <<"src", "sub.lua">>, <<"src", "sub", "b.luau">>, <<"src", "a.luau">>, <<"src", "sub", "deep.lua">> }
\* directory listing order of every name above (byte order)
FsOrder == <<"Parent.lua", "a b.lua", "a.lua", "a.luau", "b.lua", "b.luau", "c.luau", "data.json", "deep", "deep.lua",
             "init.lua", "init.luau", "init.server.lua", "lib.lua", "main.server.lua", "src", "sub", "sub.lua", "x.lua">>

FsCases(s, t, ctx) ==          \* s = t is left out: a module requiring itself is an error in Roblox, there is no target to keep
  LET files == {s, t} \cup ctx IN
  IF s = t THEN {} ELSE
  { [fam |-> "fs", cur |-> cur, style |-> st, files |-> SortPaths(FsOrder, files), src |-> s, tgt |-> t,
     req |-> ReqFor(cur, s, t), sm |-> 0, smpath |-> <<"sourcemap.json">>, prefix |-> "", nodes |-> <<>>, order |-> FsOrder]
    : cur \in {"path", "luau"}, st \in {"find_first_child", "wait_for_child", "property"} }

(* ------------------------------------------------------------------ family sp *)
Mod(name, parent, files) == [name |-> name, cls |-> "ModuleScript", parent |-> parent, files |-> files]
Fold(name, parent) == [name |-> name, cls |-> "Folder", parent |-> parent, files |-> <<>>]
SpBase == [fam |-> "sp", cur |-> "path", style |-> "find_first_child", files |-> << <<"src", "a.lua">>, <<"src", "b.lua">> >>,
           src |-> <<"src", "a.lua">>, tgt |-> <<"src", "b.lua">>, req |-> "./b.lua", sm |-> 1,
           smpath |-> <<"sourcemap.json">>, prefix |-> "", nodes |-> <<>>, order |-> FsOrder]
\* two sibling modules under a Folder project; `up`: from the directory of the sourcemap back to the project directory
TwoModules(up) == << Fold("Project", 0), Mod("a", 1, <<up \o <<"src", "a.lua">>>>), Mod("b", 1, <<up \o <<"src", "b.lua">>>>) >>
Placement(smpath, up, prefix) == [SpBase EXCEPT !.smpath = smpath, !.prefix = prefix, !.nodes = TwoModules(up)]
SpCases == <<
  \* where the sourcemap lives / how the location is spelt
  Placement(<<"sourcemap.json">>, <<>>, ""), Placement(<<".", "sourcemap.json">>, <<>>, ""),
  Placement(<<"sourcemap.json">>, <<>>, "./"), Placement(<<"maps", "sourcemap.json">>, <<"..">>, ""),
  Placement(<<".", "maps", "sourcemap.json">>, <<"..">>, "./"),
  Placement(<<"maps", "deep", "sourcemap.json">>, <<"..", "..">>, ""),
  Placement(<<"src", "sourcemap.json">>, <<"..">>, ""),
  \* the target is owned by two nodes / the source is / nobody owns the target / nobody owns the source
  [SpBase EXCEPT !.nodes = << Fold("Project", 0), Mod("a", 1, << <<"src", "a.lua">> >>), Mod("x", 1, << <<"src", "b.lua">> >>),
                             Fold("f", 1), Mod("y", 4, << <<"src", "b.lua">> >>) >>],
  [SpBase EXCEPT !.nodes = << Fold("Project", 0), Mod("a", 1, << <<"src", "a.lua">> >>), Fold("f", 1),
                             Mod("a2", 3, << <<"src", "a.lua">> >>), Mod("b", 1, << <<"src", "b.lua">> >>) >>],
  [SpBase EXCEPT !.nodes = << Fold("Project", 0), Mod("a", 1, << <<"src", "a.lua">> >>), Mod("b", 1, <<>>) >>],
  [SpBase EXCEPT !.nodes = << Fold("Project", 0), Mod("a", 1, <<>>), Mod("b", 1, << <<"src", "b.lua">> >>) >>],
  \* names: ending in .lua / .luau (index() strips them), a keyword, a leading digit, an underscore
  [SpBase EXCEPT !.nodes = << Fold("Project", 0), Mod("a", 1, << <<"src", "a.lua">> >>), Mod("b.lua", 1, << <<"src", "b.lua">> >>) >>],
  [SpBase EXCEPT !.nodes = << Fold("Project", 0), Mod("a", 1, << <<"src", "a.lua">> >>), Fold("pkg.luau", 1), Mod("b", 3, << <<"src", "b.lua">> >>) >>],
  [SpBase EXCEPT !.style = "property", !.nodes = << Fold("Project", 0), Mod("a", 1, << <<"src", "a.lua">> >>), Mod("while", 1, << <<"src", "b.lua">> >>) >>],
  [SpBase EXCEPT !.style = "property", !.nodes = << Fold("Project", 0), Mod("a", 1, << <<"src", "a.lua">> >>), Mod("1b", 1, << <<"src", "b.lua">> >>) >>],
  [SpBase EXCEPT !.style = "property", !.nodes = << Fold("Project", 0), Mod("a", 1, << <<"src", "a.lua">> >>), Mod("_b1", 1, << <<"src", "b.lua">> >>) >>],
  \* a member of the PARENT's class only: Source under a ModuleScript (property style)
  [SpBase EXCEPT !.style = "property", !.nodes = << Mod("Project", 0, << <<"src", "a.lua">> >>), Mod("Source", 1, << <<"src", "b.lua">> >>) >>],
  \* the game:GetService route (S seven levels below the common ancestor `p`) walks through a shadowed Folder `a`
  \* that the script-relative route would not touch
  [SpBase EXCEPT !.nodes = << [name |-> "Place", cls |-> "DataModel", parent |-> 0, files |-> <<>>],
                             [name |-> "ReplicatedStorage", cls |-> "ReplicatedStorage", parent |-> 1, files |-> <<>>],
                             Fold("a", 2), Fold("a", 2), Fold("p", 4), Mod("b", 5, << <<"src", "b.lua">> >>),
                             Fold("d1", 5), Fold("d2", 7), Fold("d3", 8), Fold("d4", 9), Mod("s", 10, << <<"src", "a.lua">> >>) >>],
  \* luau as the current mode, with a sourcemap
  [SpBase EXCEPT !.cur = "luau", !.nodes = TwoModules(<<>>)],
  \* without a sourcemap: location spelt ./proj, short and redundant request forms, a directory whose name ends in .lua
  [SpBase EXCEPT !.sm = 0, !.prefix = "./"],
  [SpBase EXCEPT !.sm = 0, !.req = "./b"],
  [SpBase EXCEPT !.sm = 0, !.files = << <<"src", "a.lua">>, <<"src", "sub", "init.luau">> >>, !.tgt = <<"src", "sub", "init.luau">>, !.req = "./sub"],
  [SpBase EXCEPT !.sm = 0, !.files = << <<"src", "a.lua">>, <<"src", "sub", "b.lua">> >>, !.src = <<"src", "sub", "b.lua">>,
                 !.tgt = <<"src", "a.lua">>, !.req = ".././sub/../a.lua"],
  [SpBase EXCEPT !.sm = 0, !.files = << <<"src", "a.lua">>, <<"src", "lib.lua", "x.lua">> >>, !.tgt = <<"src", "lib.lua", "x.lua">>,
                 !.req = "./lib.lua/x.lua"]
>>

(* ------------------------------------------------------------------ the state space *)
\* A state is a GROUP of cases: one named tree (sm), one (source, target, context) layout (fs), one special case (sp).
\* Init is small (shapes); the first transition fans out (names / contexts) so that the workers share the work.
VARIABLES fam, stage, n, pv, rk, nm, si, ti, ctx
vars == <<fam, stage, n, pv, rk, nm, si, ti, ctx>>

Init ==
  \/ /\ fam = "sm" /\ stage = 0 /\ rk \in RootKinds
     /\ n \in 1..(IF rk = "place" THEN MaxOf(MaxNP, MaxOf(MaxN, MaxNS)) ELSE MaxOf(MaxN, MaxNS)) /\ pv \in ParentVecs(n)
     /\ nm = <<>> /\ si = 0 /\ ti = 0 /\ ctx = {}
  \/ /\ fam = "fs" /\ stage = 0 /\ si \in 1..Len(FsSources) /\ ti \in 1..Len(FsTargets)
     /\ n = 0 /\ pv = <<>> /\ rk = "" /\ nm = <<>> /\ ctx = {}
  \/ /\ fam = "sp" /\ stage = 1 /\ si \in 1..Len(SpCases) /\ ti = 0
     /\ n = 0 /\ pv = <<>> /\ rk = "" /\ nm = <<>> /\ ctx = {}

Next ==
  /\ stage = 0 /\ stage' = 1
  /\ \/ /\ fam = "sm"
        /\ nm' \in {f \in [1..n -> AlphabetFor(n)] : f[1] = "a" /\ WellFormed(n, pv, f, rk)}
        /\ UNCHANGED <<fam, n, pv, rk, si, ti, ctx>>
     \/ /\ fam = "fs"
        /\ ctx' \in {x \in SUBSET (FsExtras \ {FsSources[si], FsTargets[ti]}) : Cardinality(x) <= MaxCtx}
        /\ UNCHANGED <<fam, n, pv, rk, nm, si, ti>>

CasesOfState ==
  IF stage = 0 THEN {}
  ELSE CASE fam = "sm" -> SmCases(n, pv, nm, rk)
         [] fam = "fs" -> FsCases(FsSources[si], FsTargets[ti], ctx)
         [] OTHER -> {SpCases[si]}

(* ------------------------------------------------------------------ emission and the design-level theorem *)
CaseJson(c, g, keeps, lim) ==
  [fam |-> c.fam, cur |-> c.cur, style |-> c.style,
   files |-> [i \in 1..Len(c.files) |-> JoinPath(c.files[i])],
   src |-> JoinPath(c.src), tgt |-> JoinPath(c.tgt), req |-> c.req, sm |-> c.sm, smpath |-> JoinPath(c.smpath),
   prefix |-> c.prefix,
   nodes |-> [i \in 1..Len(c.nodes) |-> [name |-> c.nodes[i].name, cls |-> c.nodes[i].cls, parent |-> c.nodes[i].parent,
                                         files |-> [k \in 1..Len(c.nodes[i].files) |-> JoinPath(c.nodes[i].files[k])]]],
   order |-> c.order,
   mstatus |-> g.status, mroot |-> g.root, msteps |-> g.steps, mkeeps |-> keeps, mlimit |-> lim]

\* always TRUE: prints every case of the state, and a DESIGN line where the theorem fails on the transcription
Emit ==
  \A c \in CasesOfState :
    LET g == Gen(c) tree == TreeOf(c) IN
    LET keeps == KeepsTargetWith(c, tree, g) lim == Limit(c) IN
    /\ PrintT("CASE " \o ToJson(CaseJson(c, g, keeps, lim)))
    /\ (keeps \/ lim # "" \/ PrintT("DESIGN " \o ToJson(CaseJson(c, g, keeps, lim))))
=============================================================================
