INIT Init
NEXT Next
INVARIANT RoundTripOrKnown
INVARIANT Emit
