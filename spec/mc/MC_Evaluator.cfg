INIT Init
NEXT Next
INVARIANT TypeOk
CHECK_DEADLOCK FALSE
