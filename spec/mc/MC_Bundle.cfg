CONSTANT DevModuleScopeNotTracked = TRUE
INIT McInit
NEXT McNext
INVARIANT CacheInjective
INVARIANT BodyEnteredOnce
INVARIANT Termination
INVARIANT DefsOrdered
INVARIANT ErrorsNamed
INVARIANT Outcome
INVARIANT FinalAgrees
INVARIANT DeviationOnlyAtTrigger
INVARIANT EmitCase
