----------------------------- MODULE MC_Resolve -----------------------------
(* Bounded instance of Resolve: enumerates every (mode, request, requiring file, folder  *)
(* name, file-system subset) case, model-checks the conversion theorem on the transcribed *)
(* generate_require (design level) and emits every case as a JSON line for replay into   *)
(* the real code (S->I).                                                                  *)
EXTENDS Resolve, Json, IOUtils

S(x) == Seg(x, "")
Requests == <<
  <<Cur, S("m")>>,                    \* ./m
  <<Par, S("m")>>,                    \* ../m
  <<Cur, S("sub"), Par, S("m")>>,     \* ./sub/../m
  <<Cur, Seg("m", "lua")>>,           \* ./m.lua
  <<Cur, Seg("m", "luau")>>,          \* ./m.luau
  <<Cur, S("m"), S("init")>>,         \* ./m/init
  <<Cur, S("m"), Seg("init", "lua")>>,\* ./m/init.lua
  <<S("@pkg"), S("m")>>,              \* @pkg/m   (source / alias -> lib)
  <<S("@self"), S("m")>>,             \* @self/m  (luau only)
  <<Cur, S("sub"), S("m")>>,          \* ./sub/m
  <<Par, S("src"), S("m")>>,          \* ../src/m
  <<Cur, Cur, S("m")>>,               \* ././m
  <<S("@pkg"), S("m"), Seg("init", "luau")>>, \* @pkg/m/init.luau
  \* requests whose last segment is `.` or `..`: the candidates are built from the NORMALISED path
  <<Par>>,                            \* ..
  <<Cur, Par>>,                       \* ./..
  <<Par, S("sub"), Par>>,             \* ../sub/..
  <<Cur, S("m"), Par, S("m"), Cur>>,  \* ./m/../m/.
  <<Cur, S("m"), S("x"), Par>>        \* ./m/x/..
>>
\* requiring files: an ordinary file, two module-folder files, and a file whose name only STARTS like one (`init.spec.luau`
\* sits next to init.luau but is not a module-folder file: its relative requires are relative to its own directory)
SourcesFiles == { <<S("src"), Seg("main", "lua")>>, <<S("src"), Seg("init", "luau")>>, <<S("src"), S("sub"), Seg("init", "lua")>>,
                  <<S("src"), S("sub"), Seg("init.spec", "luau")>> }
FolderNames == { S("init"), S("index"), Seg("mod", "luau") }
Aliases == [x \in {"@pkg"} |-> <<S("lib")>>]
Dirs == { <<>>, <<S("src")>>, <<S("lib")>>, <<S("src"), S("sub")>> }
MaxFs == IF "MAXFS" \in DOMAIN IOEnv THEN atoi(IOEnv.MAXFS) ELSE 3

VARIABLES mode, ri, src, mfn, fs
vars == <<mode, ri, src, mfn, fs>>

Req == Requests[ri]
\* pool of interesting files for this case: the six candidates (under this mode's head) plus one decoy per other directory
Pool(md, r, sr, fn) ==
  LET h == HeadOf(md, r, sr, Aliases, fn) IN
  LET cs == Candidates(Normalize(h, TRUE), FolderName(md, fn)) IN
  LET own == {Canon(cs[i]) : i \in 1..Len(cs)} IN
  LET c1 == Canon(cs[1]) IN
  LET ms == {k \in 1..Len(c1) : c1[k].stem = "m"} IN
  LET hd == IF ms = {} THEN c1 ELSE SubSeq(c1, 1, (CHOOSE k \in ms : \A j \in ms : k <= j) - 1) IN
  own \cup { d \o <<Seg("m", "lua")>> : d \in Dirs }
      \cup { hd \o <<Seg("m", "luau")>>, hd \o <<Seg("m", "")>> \o <<Seg("init", "luau")>>, hd \o <<Seg("m", "")>> }   \* incl. the extension-less file `m`

Init ==
  /\ mode \in {"path", "luau"}
  /\ ri \in 1..Len(Requests)
  /\ src \in SourcesFiles
  /\ mfn \in (IF mode = "luau" THEN {S("init")} ELSE FolderNames)
  /\ (Requests[ri][1] = S("@self") => mode = "luau")
  /\ HeadOf(mode, Requests[ri], src, Aliases, mfn) # <<Seg("!unknown-source", "")>>
  /\ fs \in {f \in SUBSET Pool(mode, Requests[ri], src, mfn) : Cardinality(f) <= MaxFs /\ \A p \in f : p # <<>> /\ ~IsSpecial(p[1]) /\ p # src}
Next == UNCHANGED vars

PathStr(p) == IF p = <<>> THEN "." ELSE
  LET F[i \in 1..Len(p)] == IF i = 1 THEN Full(p[1]) ELSE F[i - 1] \o "/" \o Full(p[i]) IN F[Len(p)]
FsSeq == LET RECURSIVE Go(_) Go(s) == IF s = {} THEN <<>> ELSE LET x == CHOOSE y \in s : TRUE IN <<PathStr(x)>> \o Go(s \ {x}) IN Go(fs)

Expected == DocResolve(mode, Req, src, fs, Aliases, mfn)
OtherMode == IF mode = "path" THEN "luau" ELSE "path"

\* always-true invariant that prints the case (S->I replay input)
EmitCase == PrintT("CASE " \o ToJson([mode |-> mode, req |-> PathStr(Req), src |-> PathStr(src), mfn |-> Full(mfn),
                                     fs |-> FsSeq, expect |-> PathStr(Expected)]))

\* design-level theorem on the transcription of generate_require (violations listed with -continue)
\* the folder name is a parameter of the PATH mode only (the luau mode is fixed to `init`): a path-mode project with another
\* module_folder_name converts to luau requires that name the module-folder file in full (`./lib/index`)
ConvertOK == ConvertKeepsTarget(mode, OtherMode, Req, src, fs, Aliases, mfn)
ConvertReport == ConvertOK \/ PrintT("DESIGN-CONVERT " \o ToJson([mode |-> mode, req |-> PathStr(Req), src |-> PathStr(src), fs |-> FsSeq,
                      resolved |-> PathStr(Expected),
                      generated |-> PathStr(Generate(OtherMode, Expected, src, fs, Aliases, mfn)),
                      reresolved |-> PathStr(DocResolve(OtherMode, Generate(OtherMode, Expected, src, fs, Aliases, mfn), src, fs, Aliases, mfn))]))
\* the same theorem for the unchecked shortening (what the code did before the fix): counted, not required
UncheckedOK == ConvertKeepsTargetUnchecked(mode, OtherMode, Req, src, fs, Aliases, mfn)
UncheckedReport == UncheckedOK \/ PrintT("DESIGN-UNCHECKED " \o ToJson([mode |-> mode, req |-> PathStr(Req), src |-> PathStr(src), fs |-> FsSeq]))
=============================================================================
