------------------------------ MODULE MC_Fusion ------------------------------
(* Token-fusion theorem: for every ordered pair of representative lexemes (t1, t2) and every *)
(* mode in which a generator may push t2, the reference lexer reads  t1 sep t2  (sep = one   *)
(* space iff GenSpacing!Separates) back as exactly the two lexemes.  Every failing triple is  *)
(* printed as a DESIGN-FUSION line; whether the pair can be adjacent in a program a generator *)
(* prints is decided by the driver (checks/c02.py, table with reasons) and then confirmed on  *)
(* the real code.                                                                            *)
EXTENDS LuaLex, GenSpacing, Bytes, LuaStr, FiniteSets
Names == <<"a", "a1", "_", "e", "x", "and", "end", "not", "or", "then", "nil",
           "1", "12", "-1", "-0.5", "1.", ".5", "1.5", "0x1", "0xa", "0xe", "1e1", "1e+1", "0b1", "1_0",
           "..", "...", ".", "-", "+", "*", "/", "//", "%", "^", "#",
           "[", "]", "[[s]]", "[=[s]=]", "=", "==", "~=", "<", "<=", ">", ">=", ":", "::",
           "'s'", "\"s\"", "(", ")", "{", "}", ",", ";",
           "+=", "-=", "*=", "/=", "//=", "%=", "^=", "..=", "->", "?", "&", "|", "@", "`s`">>
Toks == {BytesOf(Names[i]) : i \in 1..Len(Names)}
ModesOf(t) ==
  LET s == StrOf(t) IN
  CASE s = ".."  -> {"std", "concat"}
    [] s = "..." -> {"std", "varargs"}
    [] s = "-"   -> {"std", "minus"}
    [] s = "="   -> {"std", "equal"}
    [] s \in {"[[s]]", "[=[s]=]"} -> {"std", "longstr"}
    [] s \in {".", "("} -> {"std", "raw"}
    [] OTHER -> {"std"}
Lexemes(r) == [j \in 1..Len(r.toks) |-> <<r.toks[j].k, r.toks[j].v>>]
Self(t) == Lexemes(Lex(t, TRUE))
Joined(t1, t2, m) == t1 \o (IF Separates(m, t1, t2) THEN <<32>> ELSE <<>>) \o t2
Holds(t1, t2, m) == LET r == Lex(Joined(t1, t2, m), TRUE) IN r.ok /\ Lexemes(r) = Self(t1) \o Self(t2)
\* a separator that is not needed (reported for information only)
Needless(t1, t2, m) == Separates(m, t1, t2) /\ LET r == Lex(t1 \o t2, TRUE) IN r.ok /\ Lexemes(r) = Self(t1) \o Self(t2)
\* every lexeme is one token, except the negative numerals `-1`, `-0.5` (one push of the number writer, two tokens)
ASSUME \A t \in Toks : Lex(t, TRUE).ok /\ Len(Lex(t, TRUE).toks) = (IF t[1] = 45 /\ Len(t) > 1 /\ t[2] \in 48..57 THEN 2 ELSE 1)
VARIABLES t1, t2
Init == t1 \in Toks /\ t2 = <<>>
Next == t2 = <<>> /\ t2' \in Toks /\ UNCHANGED t1
Show(r) == [j \in 1..Len(r.toks) |-> StrOf(IF r.toks[j].k = "str" THEN <<39>> \o r.toks[j].v \o <<39>> ELSE r.toks[j].v)]
Emit ==
  t2 = <<>> \/
  \A m \in ModesOf(t2) :
    /\ (Holds(t1, t2, m) \/ EmitLine("DESIGN-FUSION " \o JsonOf([t1 |-> StrOf(t1), t2 |-> StrOf(t2), mode |-> m,
                                        text |-> StrOf(Joined(t1, t2, m)), ok |-> Lex(Joined(t1, t2, m), TRUE).ok,
                                        got |-> Show(Lex(Joined(t1, t2, m), TRUE))])))
    /\ (~Needless(t1, t2, m) \/ EmitLine("NEEDLESS " \o JsonOf([t1 |-> StrOf(t1), t2 |-> StrOf(t2), mode |-> m])))
    /\ EmitLine("PAIR " \o JsonOf([holds |-> Holds(t1, t2, m)]))
=============================================================================
