CONSTANTS
  MaxLine = 3
  MaxLen = 3
INIT Init
NEXT Next
INVARIANT LineKept
