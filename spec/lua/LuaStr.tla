------------------------------- MODULE LuaStr -------------------------------
(* Byte-string helpers. A Lua string is a TLC string whose characters are the bytes   *)
(* 0..255 (Latin-1 mapping, see NODEFORMAT.md). The TLA+ bodies below are placeholders *)
(* (correct only on trivial arguments); the Java class LuaStr (module override) is the *)
(* definition. LuaStr_Test / IEEE754_Test check the overrides are loaded.              *)
EXTENDS Integers, Sequences
StrLt(a, b)      == FALSE             \* overridden: bytewise a < b (strcmp order, prefix is smaller)
StrByte(s, i)    == 0                 \* overridden: byte value of s[i], 1-based; -1 if out of range
StrOfBytes(q)    == ""                \* overridden: sequence of 0..255 -> string
StrSub(s, i, j)  == ""                \* overridden: bytes i..j (1-based, inclusive, clamped; "" if empty)
StrToNumber(s)   == <<FALSE, 0, 0>>   \* overridden: <<ok, hi, lo>>; ok only for the trimmed decimal /
                                      \*   0x-hex-integer (<= 8 hex digits) syntax both dialects accept
StrNumUnsure(s)  == FALSE             \* overridden: TRUE iff ~ok but some strtod/dialect might accept it
                                      \*   (signed or long hex, hex floats, inf/nan spellings, embedded NUL, huge exponents)
NumToStr(d)      == <<FALSE, "">>     \* overridden: <<definite, string>> (see README: agreed range of %.14g / Luau)
IntStr(i)        == ""                \* overridden: decimal digits of a TLC integer
FmtParse(s)      == <<>>              \* overridden: string.format directive parser: seq of <<kind, text>>,
                                      \*   kind in {"lit","s","d","bad"}
StrHasPrefix(s, p) == FALSE           \* overridden
\* first index i with q[i] = x, 0 if none. This body IS the definition; the Java override only makes
\* it fast (table lookups are the hot path of LuaSem).
RECURSIVE SeqIndexFrom(_, _, _)
SeqIndexFrom(q, x, i) == IF i > Len(q) THEN 0 ELSE IF q[i] = x THEN i ELSE SeqIndexFrom(q, x, i + 1)
SeqIndexOf(q, x)  == SeqIndexFrom(q, x, 1)   \* overridden
JsonOf(v)        == ""                \* overridden: compact JSON text of records / sequences / strings / ints / booleans
                                      \*   (bytes outside 0x20..0x7e and the characters " \ are written \u00XX)
EmitLine(s)      == TRUE              \* overridden: prints the string s as one raw line on stdout; TRUE
=============================================================================
