import tlc2.value.impl.*;

public class Bytes {
  public static Value BytesOf(Value s) {
    String t = ((StringValue) s).val.toString();
    Value[] out = new Value[t.length()];
    for (int i = 0; i < t.length(); i++) out[i] = IntValue.gen(t.charAt(i) & 0xff);
    return new TupleValue(out);
  }
  public static Value StrOf(Value q) {
    TupleValue t = (TupleValue) q.toTuple();
    StringBuilder sb = new StringBuilder();
    for (Value v : t.elems) sb.append((char) (((IntValue) v).val & 0xff));
    return new StringValue(sb.toString());
  }
}
