#!/bin/sh
# Compiles the TLC module overrides (classes IEEE754 and LuaStr) next to the specs.
set -e
cd /verif/spec/lua
javac -cp /opt/veriftools/tla/tla2tools.jar -d /verif/spec/lua IEEE754.java LuaStr.java
