-------------------------------- MODULE Bytes --------------------------------
(* Conversion between TLC strings (characters = bytes 0..255, Latin-1 mapping) and   *)
(* sequences of byte values.  Java module override: class Bytes.                     *)
EXTENDS Integers, Sequences
BytesOf(s) == <<>>      \* overridden: the sequence of byte values of string s
StrOf(q)   == ""        \* overridden: the string whose bytes are the sequence q
=============================================================================
