INIT Init
NEXT Next
