------------------------------ MODULE IEEE754 ------------------------------
(* IEEE-754 binary64 primitives. A double is <<hi, lo>>: its two 32-bit words as TLC integers. *)
(* The TLA+ bodies define the operators on small integers only; the Java class IEEE754      *)
(* (module override) extends them to all doubles.                                            *)
EXTENDS Integers, Sequences
Small == -1000..1000
\* encoding of small integers is left abstract in TLA+ (CHOOSE); everything else is defined through it
FOfInt(i)      == CHOOSE d \in {<<i, 0>>} : TRUE            \* overridden
FToInt(d)      == d[1]                                        \* overridden (exact integers only)
FIsInt(d)      == TRUE                                        \* overridden
FAdd(a, b)     == FOfInt(FToInt(a) + FToInt(b))               \* overridden
FSub(a, b)     == FOfInt(FToInt(a) - FToInt(b))               \* overridden
FMul(a, b)     == FOfInt(FToInt(a) * FToInt(b))               \* overridden
FDiv(a, b)     == CHOOSE d \in {a} : TRUE                     \* overridden
FPow(a, b)     == CHOOSE d \in {a} : TRUE                     \* overridden
FMod(a, b)     == CHOOSE d \in {a} : TRUE                     \* overridden   (Lua: a - floor(a/b)*b)
FModLuau(a, b) == CHOOSE d \in {a} : TRUE                     \* overridden   (Luau: r = fmod(a,b); if r # 0 and sign differs, r += b)
FFloor(a)      == a                                           \* overridden
FSqrt(a)       == CHOOSE d \in {a} : TRUE                     \* overridden
FNeg(a)        == FOfInt(0 - FToInt(a))                       \* overridden
FEq(a, b)      == FToInt(a) = FToInt(b)                       \* overridden   (IEEE ==: NaN # NaN, +0 = -0)
FLt(a, b)      == FToInt(a) < FToInt(b)                       \* overridden
FLe(a, b)      == FToInt(a) <= FToInt(b)                      \* overridden
FIsNaN(a)      == FALSE                                       \* overridden
FSignBit(a)    == FToInt(a) < 0                               \* overridden
FOfDecimal(s)  == CHOOSE d \in {<<0, 0>>} : TRUE              \* overridden   (correctly rounded; s is a decimal/hex literal string)
FFmt14g(a)     == ""                                          \* overridden   (C printf "%.14g")
FFmtShortest(a) == ""                                         \* overridden   (shortest digits that round-trip, scientific form d.ddde[+-]xx)
=============================================================================
