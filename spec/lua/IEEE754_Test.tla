---------------------------- MODULE IEEE754_Test ----------------------------
(* ASSUME-based self test of the IEEE754 and LuaStr module overrides. Run from /verif/spec/lua. *)
EXTENDS IEEE754, LuaStr, TLC, Json
N(i) == FOfInt(i)
One == N(1)  Zero == N(0)
Inf == FDiv(One, Zero)   NInf == FDiv(N(-1), Zero)   NaN == FDiv(Zero, Zero)   NZero == FNeg(Zero)
ASSUME \A a, b \in -20..20 : FToInt(FAdd(N(a), N(b))) = a + b /\ FToInt(FMul(N(a), N(b))) = a * b /\ FToInt(FSub(N(a), N(b))) = a - b
ASSUME \A a, b \in -20..20 : FLt(N(a), N(b)) = (a < b) /\ FEq(N(a), N(b)) = (a = b)
ASSUME FEq(Inf, Inf) /\ ~FEq(NaN, NaN) /\ FEq(Zero, NZero) /\ Zero # NZero /\ FSignBit(NZero) /\ ~FSignBit(Zero)
ASSUME FEq(FDiv(One, NZero), NInf)
ASSUME \A a \in -7..7 : \A b \in {-3, -2, 2, 3} : FToInt(FMod(N(a), N(b))) = a % (IF b > 0 THEN b ELSE -b) \/ b < 0   \* positive divisor: TLA+ %
ASSUME FToInt(FMod(N(-7), N(3))) = 2 /\ FToInt(FMod(N(7), N(-3))) = -2 /\ FToInt(FFloor(FDiv(N(-7), N(2)))) = -4
ASSUME FFmt14g(N(10)) = "10" /\ FFmt14g(FDiv(One, N(3))) = "0.33333333333333" /\ FFmt14g(FOfDecimal("1e15")) = "1e+15"
ASSUME FFmt14g(FOfDecimal("1e14")) = "1e+14" /\ FFmt14g(FOfDecimal("99999999999999")) = "99999999999999" /\ FFmt14g(FOfDecimal("0.0001")) = "0.0001" /\ FFmt14g(FOfDecimal("0.00001")) = "1e-05"
ASSUME FFmt14g(NaN) = "nan" /\ FFmt14g(NInf) = "-inf" /\ FFmt14g(NZero) = "-0" /\ FFmt14g(FOfDecimal("2.5")) = "2.5" /\ FFmt14g(FOfDecimal("123456789012345678")) = "1.2345678901235e+17"
ASSUME FFmtShortest(FDiv(One, N(3))) = "3333333333333333e-1" /\ FFmtShortest(FOfDecimal("0.1")) = "1e-1" /\ FFmtShortest(FOfDecimal("9007199254740993")) = "9007199254740992e15" /\ FFmtShortest(FOfDecimal("5e-324")) = "5e-324"
ASSUME FOfDecimal("0x10") = N(16) /\ FOfDecimal("0b101") = N(5) /\ FOfDecimal("1_000") = N(1000) /\ FOfDecimal("0x1p4") = N(16) /\ FOfDecimal("0xffffffffffffffff") = FOfDecimal("18446744073709551615")
ASSUME FEq(FPow(NZero, FOfDecimal("0.5")), Zero) /\ ~FSignBit(FPow(NZero, FOfDecimal("0.5"))) /\ FSignBit(FSqrt(NZero))      \* sqrt(-0) = -0 but (-0)^0.5 = +0
ASSUME FEq(FPow(NInf, FOfDecimal("0.5")), Inf) /\ FIsNaN(FSqrt(NInf))                                                     \* sqrt(-inf) = nan but (-inf)^0.5 = +inf
\* the epsilon-equality of darklua's evaluator vs IEEE equality
EpsEq(a, b) == LET d == FSub(a, b) IN FLt(IF FSignBit(d) THEN FNeg(d) ELSE d, FOfDecimal("2.220446049250313e-16"))
ASSUME EpsEq(FOfDecimal("1e-17"), Zero) /\ ~FEq(FOfDecimal("1e-17"), Zero) /\ ~EpsEq(Inf, Inf) /\ FEq(Inf, Inf)
\* JSON transport of word pairs
D == ndJsonDeserialize("IEEE754_Test.ndjson")
ASSUME <<D[1].hi, D[1].lo>> = FOfDecimal("0.1") /\ <<D[2].hi, D[2].lo>> = NZero /\ <<D[3].hi, D[3].lo>> = NInf
\* ---- LuaStr
D_(s) == FOfDecimal(s)
ASSUME StrLt("a", "b") /\ ~StrLt("b", "a") /\ StrLt("a", "ab") /\ ~StrLt("a", "a") /\ StrLt("", "a") /\ StrLt("Z", "a") /\ StrLt("a", StrOfBytes(<<255>>))
ASSUME StrByte("A", 1) = 65 /\ StrByte("A", 2) = -1 /\ StrByte(StrOfBytes(<<0, 200, 255>>), 2) = 200 /\ Len(StrOfBytes(<<0, 200, 255>>)) = 3
ASSUME StrSub("hello", 2, 3) = "el" /\ StrSub("hello", 0, 99) = "hello" /\ StrSub("hello", 4, 2) = "" /\ ("ab" \o "cd") = "abcd" /\ Len("abc") = 3
ASSUME StrToNumber("10") = <<TRUE>> \o N(10) /\ StrToNumber("  10  ") = <<TRUE>> \o N(10) /\ StrToNumber("0x10") = <<TRUE>> \o N(16) /\ StrToNumber("1e1") = <<TRUE>> \o N(10)
ASSUME StrToNumber("-5.") = <<TRUE>> \o N(-5) /\ StrToNumber(".5") = <<TRUE>> \o D_("0.5") /\ StrToNumber("-0") = <<TRUE>> \o NZero /\ StrToNumber("+3") = <<TRUE>> \o N(3) /\ StrToNumber("5.e1") = <<TRUE>> \o N(50)
ASSUME ~StrToNumber("")[1] /\ ~StrToNumber("abc")[1] /\ ~StrToNumber("10 a")[1] /\ ~StrToNumber("0x")[1] /\ ~StrToNumber("1e")[1] /\ ~StrToNumber(".")[1] /\ ~StrToNumber("inf")[1] /\ ~StrToNumber("-0x10")[1] /\ ~StrToNumber("1 0")[1]
ASSUME ~StrNumUnsure("") /\ ~StrNumUnsure("abc") /\ ~StrNumUnsure("10") /\ StrNumUnsure("inf") /\ StrNumUnsure("-0x10") /\ StrNumUnsure("NaN") /\ StrNumUnsure("0x1p4") /\ StrNumUnsure("0x123456789") /\ StrNumUnsure("1e9999999") /\ ~StrNumUnsure("1e")
ASSUME NumToStr(N(10)) = <<TRUE, "10">> /\ NumToStr(NZero) = <<TRUE, "-0">> /\ NumToStr(N(-7)) = <<TRUE, "-7">> /\ NumToStr(Inf) = <<TRUE, "inf">> /\ NumToStr(NInf) = <<TRUE, "-inf">> /\ ~NumToStr(NaN)[1]
ASSUME NumToStr(D_("2.5")) = <<TRUE, "2.5">> /\ NumToStr(D_("0.1")) = <<TRUE, "0.1">> /\ NumToStr(D_("1e3")) = <<TRUE, "1000">> /\ NumToStr(D_("99999999999999")) = <<TRUE, "99999999999999">> /\ ~NumToStr(D_("1e14"))[1]
ASSUME ~NumToStr(FDiv(One, N(3)))[1] /\ ~NumToStr(D_("0.00001"))[1] /\ NumToStr(D_("0.0001")) = <<TRUE, "0.0001">> /\ ~NumToStr(FAdd(D_("0.1"), D_("0.2")))[1] /\ NumToStr(D_("-1.25")) = <<TRUE, "-1.25">> /\ NumToStr(D_("123456.789")) = <<TRUE, "123456.789">>
ASSUME SeqIndexOf(<<"a", "b", "a">>, "a") = 1 /\ SeqIndexOf(<<"a", "b">>, "c") = 0 /\ SeqIndexOf(<<>>, "c") = 0 /\ SeqIndexOf(<<[t |-> "num", hi |-> 1, lo |-> 0, s |-> ""], [t |-> "str", hi |-> 0, lo |-> 0, s |-> "k"]>>, [t |-> "str", hi |-> 0, lo |-> 0, s |-> "k"]) = 2
ASSUME \A x \in {"a", "b", "c"} : SeqIndexOf(<<"b", "c", "b">>, x) = SeqIndexFrom(<<"b", "c", "b">>, x, 1)
ASSUME IntStr(12) = "12" /\ IntStr(-3) = "-3" /\ StrHasPrefix("ext1", "ext") /\ ~StrHasPrefix("ex", "ext")
ASSUME FmtParse("a%sb%d%%") = << <<"lit", "a">>, <<"s", "">>, <<"lit", "b">>, <<"d", "">>, <<"lit", "%">> >> /\ FmtParse("%5d")[1][1] = "bad" /\ FmtParse("") = <<>>
ASSUME PrintT(<<"all IEEE754 assumptions hold", Inf, NaN, NZero, FOfDecimal("0.1")>>)
VARIABLE x
Init == x = 0
Next == x' = x
=============================================================================
