import java.math.BigDecimal;
import java.math.MathContext;
import java.math.RoundingMode;
import tlc2.value.impl.*;

public class IEEE754 {
  static double dec(Value v) {
    TupleValue t = (TupleValue) v.toTuple();
    long hi = ((IntValue) t.elems[0]).val & 0xffffffffL, lo = ((IntValue) t.elems[1]).val & 0xffffffffL;
    return Double.longBitsToDouble((hi << 32) | lo);
  }
  static Value enc(double d) {
    long b = Double.doubleToRawLongBits(d);
    if (Double.isNaN(d)) b = 0x7ff8000000000000L;                 // one canonical NaN
    return new TupleValue(new Value[] { IntValue.gen((int) (b >>> 32)), IntValue.gen((int) b) });
  }
  static Value bool(boolean b) { return b ? BoolValue.ValTrue : BoolValue.ValFalse; }
  public static Value FOfInt(Value i) { return enc(((IntValue) i).val); }
  public static Value FToInt(Value a) { double d = dec(a); if (d != Math.rint(d) || Math.abs(d) > 2147483647.0) throw new RuntimeException("FToInt: not a 32-bit integer: " + d); return IntValue.gen((int) d); }
  public static Value FIsInt(Value a) { double d = dec(a); return bool(d == Math.rint(d) && Math.abs(d) <= 2147483647.0); }
  public static Value FAdd(Value a, Value b) { return enc(dec(a) + dec(b)); }
  public static Value FSub(Value a, Value b) { return enc(dec(a) - dec(b)); }
  public static Value FMul(Value a, Value b) { return enc(dec(a) * dec(b)); }
  public static Value FDiv(Value a, Value b) { return enc(dec(a) / dec(b)); }
  // C pow (C99 Annex F.9.4.4, called by both reference implementations): pow(1, y) = 1 for EVERY y (also NaN) and
  // pow(-1, +-inf) = 1; Java's Math.pow returns NaN in these cases, every other special case agrees.
  public static Value FPow(Value a, Value b) {
    double x = dec(a), y = dec(b);
    if (x == 1.0 || (x == -1.0 && Double.isInfinite(y))) return enc(1.0);
    return enc(Math.pow(x, y));
  }
  public static Value FMod(Value a, Value b) { double x = dec(a), y = dec(b); return enc(x - Math.floor(x / y) * y); }
  public static Value FModLuau(Value a, Value b) { double x = dec(a), y = dec(b); double r = x % y; if (r != 0 && ((r < 0) != (y < 0))) r += y; return enc(r); }
  public static Value FFloor(Value a) { return enc(Math.floor(dec(a))); }
  public static Value FSqrt(Value a) { return enc(Math.sqrt(dec(a))); }
  public static Value FNeg(Value a) { return enc(-dec(a)); }
  public static Value FEq(Value a, Value b) { return bool(dec(a) == dec(b)); }
  public static Value FLt(Value a, Value b) { return bool(dec(a) < dec(b)); }
  public static Value FLe(Value a, Value b) { return bool(dec(a) <= dec(b)); }
  public static Value FIsNaN(Value a) { return bool(Double.isNaN(dec(a))); }
  public static Value FSignBit(Value a) { return bool((Double.doubleToRawLongBits(dec(a)) >>> 63) != 0); }
  public static Value FOfDecimal(Value s) {
    String t = ((StringValue) s).val.toString().replace("_", "");
    if (t.startsWith("0x") || t.startsWith("0X")) {
      if (t.indexOf('p') < 0 && t.indexOf('P') < 0) return enc(new java.math.BigInteger(t.substring(2), 16).doubleValue());
      return enc(Double.parseDouble(t));
    }
    if (t.startsWith("0b") || t.startsWith("0B")) return enc(new java.math.BigInteger(t.substring(2), 2).doubleValue());
    return enc(new BigDecimal(t).doubleValue());            // BigDecimal.doubleValue is correctly rounded
  }
  // C "%.14g"
  public static Value FFmt14g(Value a) { return new StringValue(fmtG(dec(a), 14)); }
  static String fmtG(double d, int P) {
    if (Double.isNaN(d)) return "nan";
    if (Double.isInfinite(d)) return d > 0 ? "inf" : "-inf";
    if (d == 0) return (Double.doubleToRawLongBits(d) >>> 63) != 0 ? "-0" : "0";
    BigDecimal r = new BigDecimal(d).round(new MathContext(P, RoundingMode.HALF_EVEN));
    int X = r.precision() - r.scale() - 1;                      // decimal exponent of the rounded value
    String sign = r.signum() < 0 ? "-" : "";
    r = r.abs();
    if (X < -4 || X >= P) {
      String digits = r.unscaledValue().toString();
      digits = digits.replaceAll("0+$", "");
      if (digits.isEmpty()) digits = "0";
      String mant = digits.substring(0, 1) + (digits.length() > 1 ? "." + digits.substring(1) : "");
      String e = Integer.toString(Math.abs(X)); if (e.length() < 2) e = "0" + e;
      return sign + mant + "e" + (X < 0 ? "-" : "+") + e;
    }
    String plain = r.setScale(Math.max(P - 1 - X, 0), RoundingMode.HALF_EVEN).toPlainString();
    if (plain.indexOf('.') >= 0) plain = plain.replaceAll("0+$", "").replaceAll("\\.$", "");
    return sign + plain;
  }
  // shortest round-trip digits, as <digits>e<exp10 of first digit>
  public static Value FFmtShortest(Value a) {
    double d = dec(a);
    if (Double.isNaN(d)) return new StringValue("nan");
    if (Double.isInfinite(d)) return new StringValue(d > 0 ? "inf" : "-inf");
    if (d == 0) return new StringValue((Double.doubleToRawLongBits(d) >>> 63) != 0 ? "-0" : "0");
    BigDecimal exact = new BigDecimal(d);
    for (int p = 1; p <= 17; p++) {
      BigDecimal r = exact.round(new MathContext(p, RoundingMode.HALF_EVEN));
      if (r.doubleValue() == d) {
        String digits = r.abs().unscaledValue().toString().replaceAll("0+$", "");
        if (digits.isEmpty()) digits = "0";
        int X = r.precision() - r.scale() - 1;
        return new StringValue((r.signum() < 0 ? "-" : "") + digits + "e" + X);
      }
    }
    throw new RuntimeException("no 17-digit round trip for " + d);
  }
}
