------------------------------- MODULE LuaSem -------------------------------
(* Executable small-step semantics of Lua 5.1 /\ Luau (the intersection): Step(P, m) is   *)
(* the deterministic successor of a CEK-style machine, Run(P, m, fuel) iterates it.       *)
(* Programs are flat node tables (NODEFORMAT.md). Whenever behaviour is implementation-   *)
(* defined or differs between the two dialects the machine stops with st = "unspec".      *)
(* The observable world (LuaEnv: ext* functions, Render) is part of this module.          *)
EXTENDS Integers, Sequences, TLC, IEEE754, LuaStr

\* ================================================================ values
\* uniform records: num -> hi/lo words; bool -> hi = 1/0; tab/fn -> hi = heap/closure id; bi/ext -> s = name
Val(t, hi, lo, s) == [t |-> t, hi |-> hi, lo |-> lo, s |-> s]
Nil      == Val("nil", 0, 0, "")
Bool(b)  == Val("bool", IF b THEN 1 ELSE 0, 0, "")
NumD(d)  == Val("num", d[1], d[2], "")
NumI(i)  == NumD(FOfInt(i))
Str(x)   == Val("str", 0, 0, x)
Tab(i)   == Val("tab", i, 0, "")
Fn(i)    == Val("fn", i, 0, "")
Bi(x)    == Val("bi", 0, 0, x)
Ext(x)   == Val("ext", 0, 0, x)
D(v)     == <<v.hi, v.lo>>
Truthy(v) == ~(v.t = "nil" \/ (v.t = "bool" /\ v.hi = 0))
First(vs) == IF vs = <<>> THEN Nil ELSE vs[1]
Nth(vs, i) == IF i >= 1 /\ i <= Len(vs) THEN vs[i] ELSE Nil
IsFunc(v) == v.t \in {"fn", "bi", "ext"}
Zero == FOfInt(0)
IsNaNV(v) == v.t = "num" /\ FIsNaN(D(v))
\* integer-valued number that fits the small range we index with
IsIntV(v) == v.t = "num" /\ FIsInt(D(v))
IntOf(v) == FToInt(D(v))
\* raw equality (Lua ==  without metamethods)
RawEq(a, b) == IF a.t = "num" /\ b.t = "num" THEN FEq(D(a), D(b))
               ELSE a.t = b.t /\ a.hi = b.hi /\ a.lo = b.lo /\ a.s = b.s
\* table keys: -0 is the same key as +0; NaN is never stored
NormKey(k) == IF k.t = "num" /\ FEq(D(k), Zero) THEN NumD(Zero) ELSE k
TypeName(v) == CASE v.t = "nil" -> "nil" [] v.t = "bool" -> "boolean" [] v.t = "num" -> "number"
                 [] v.t = "str" -> "string" [] v.t = "tab" -> "table" [] OTHER -> "function"

\* ================================================================ program access
Node(P, i) == P.nodes[i]

\* ================================================================ machine
Frame(k, n, i, vs, env) == [k |-> k, n |-> n, i |-> i, vs |-> vs, env |-> env]
Top(m) == m.kont[Len(m.kont)]
PopK(m) == [m EXCEPT !.kont = SubSeq(m.kont, 1, Len(m.kont) - 1)]
PushK(m, f) == [m EXCEPT !.kont = Append(m.kont, f)]
Ctl(md, n, vs) == [m |-> md, n |-> n, vs |-> vs]
Go(m, md, n, vs) == [m EXCEPT !.ctl = Ctl(md, n, vs)]
RetV(m, vs) == [m EXCEPT !.ctl = Ctl("V", 0, vs)]
Ret1(m, v) == [m EXCEPT !.ctl = Ctl("V", 0, <<v>>)]
Done(m) == [m EXCEPT !.ctl = Ctl("N", 0, <<>>)]
Err(m, why) == [m EXCEPT !.st = "error", !.why = why]
Unspec(m, why) == [m EXCEPT !.st = "unspec", !.why = why]

\* fixed heap ids created by Init
GlobId == 1   MathId == 2   StringId == 3   TableId == 4   DebugId == 5   LoudId == 6
LibIds == {MathId, StringId, TableId, DebugId}

\* ================================================================ environments
RECURSIVE FindName(_, _, _), LookupLoc(_, _, _), VarArgs(_, _)
FindName(ns, x, i) == IF i = 0 THEN 0 ELSE IF ns[i] = x THEN i ELSE FindName(ns, x, i - 1)
LookupLoc(envs, e, x) == IF e = 0 THEN 0
                         ELSE LET i == FindName(envs[e].ns, x, Len(envs[e].ns)) IN
                              IF i # 0 THEN envs[e].ls[i] ELSE LookupLoc(envs, envs[e].par, x)
VarArgs(envs, e) == IF e = 0 THEN <<>> ELSE IF envs[e].fn THEN envs[e].va ELSE VarArgs(envs, envs[e].par)
Scope(par, isfn, va) == [par |-> par, ns |-> <<>>, ls |-> <<>>, fn |-> isfn, va |-> va]
NewScopeIn(m, par, isfn, va) ==
  [m EXCEPT !.envs = Append(m.envs, Scope(par, isfn, va)), !.env = Len(m.envs) + 1]
NewScope(m) == NewScopeIn(m, m.env, FALSE, <<>>)
Declare(m, x, v) ==
  [m EXCEPT !.store = Append(m.store, v),
            !.envs[m.env].ns = Append(@, x),
            !.envs[m.env].ls = Append(@, Len(m.store) + 1)]
RECURSIVE DeclareAll(_, _, _, _)
DeclareAll(m, names, vals, i) ==
  IF i > Len(names) THEN m
  ELSE DeclareAll(Declare(m, names[i], Nth(vals, i)), names, vals, i + 1)

\* ================================================================ tables (association lists in insertion order)
\* a nil value is a tombstone: the key stays (stable positions), every reader skips it
RECURSIVE KeyIndex(_, _, _)
KeyIndex(ks, k, i) == IF i > Len(ks) THEN 0 ELSE IF ks[i] = k THEN i ELSE KeyIndex(ks, k, i + 1)
EmptyTable == [ks |-> <<>>, vs |-> <<>>, mt |-> 0]
RawGetT(t, k0) == LET k == NormKey(k0) IN LET i == KeyIndex(t.ks, k, 1) IN IF i = 0 THEN Nil ELSE t.vs[i]
HasKeyT(t, k0) == KeyIndex(t.ks, NormKey(k0), 1) # 0
RawSetT(t, k0, v) == LET k == NormKey(k0) IN LET i == KeyIndex(t.ks, k, 1) IN
                     IF i = 0 THEN (IF v.t = "nil" THEN t ELSE [t EXCEPT !.ks = Append(@, k), !.vs = Append(@, v)])
                     ELSE [t EXCEPT !.vs[i] = v]
NewTable(m) == [m EXCEPT !.heap = Append(m.heap, EmptyTable)]
RECURSIVE LiveCount(_, _)
LiveCount(vs, i) == IF i = 0 THEN 0 ELSE (IF vs[i].t = "nil" THEN 0 ELSE 1) + LiveCount(vs, i - 1)
\* raw border: definite (>= 0) only when the live positive-integer keys are exactly 1..n; -1 otherwise
RECURSIVE PosIntKeys(_, _), HasAll(_, _)
PosIntKeys(t, i) == IF i = 0 THEN 0
                    ELSE (IF t.vs[i].t # "nil" /\ t.ks[i].t = "num" /\ FLt(Zero, D(t.ks[i])) /\ FEq(FFloor(D(t.ks[i])), D(t.ks[i])) THEN 1 ELSE 0)
                         + PosIntKeys(t, i - 1)
HasAll(t, n) == IF n = 0 THEN TRUE ELSE RawGetT(t, NumI(n)).t # "nil" /\ HasAll(t, n - 1)
Border(t) == LET n == PosIntKeys(t, Len(t.ks)) IN IF HasAll(t, n) THEN n ELSE -1
\* live entries are exactly the keys 1..n, inserted in ascending order (array-like for next/pairs)
RECURSIVE LiveIdx(_, _, _)
LiveIdx(vs, i, acc) == IF i > Len(vs) THEN acc ELSE LiveIdx(vs, i + 1, IF vs[i].t = "nil" THEN acc ELSE Append(acc, i))
RECURSIVE AscFrom(_, _, _)
AscFrom(t, live, j) == IF j > Len(live) THEN TRUE ELSE t.ks[live[j]] = NumI(j) /\ AscFrom(t, live, j + 1)

\* the global table resolves names without a user value to builtins / externals
StdUnmodelled == {"print", "xpcall", "loadstring", "load", "loadfile", "dofile", "coroutine", "os", "io", "package",
                  "module", "setfenv", "getfenv", "collectgarbage", "newproxy", "gcinfo", "bit32", "utf8", "buffer",
                  "vector", "typeof", "task", "game", "workspace", "script", "_VERSION", "shared", "Instance",
                  "table_", "arg"}
FnBuiltins == {"setmetatable", "getmetatable", "rawget", "rawset", "rawequal", "rawlen", "select", "type", "tostring",
               "tonumber", "ipairs", "next", "pairs", "unpack", "assert", "error", "pcall", "require"}
GlobalDefault(name) ==
  CASE name \in FnBuiltins -> Bi(name)
    [] name = "math" -> Tab(MathId) [] name = "string" -> Tab(StringId) [] name = "table" -> Tab(TableId)
    [] name = "debug" -> Tab(DebugId) [] name = "_G" -> Tab(GlobId)
    [] StrHasPrefix(name, "ext") -> Ext(name)
    [] OTHER -> Nil
\* raw read of heap table id tid
RawGet(m, tid, k) ==
  LET t == m.heap[tid] IN LET i == KeyIndex(t.ks, NormKey(k), 1) IN
  IF i # 0 THEN t.vs[i]
  ELSE IF tid = GlobId /\ k.t = "str" THEN GlobalDefault(k.s) ELSE Nil
\* reading an absent member of a library table, or a standard global we do not model, is not "nil"
RawGetUnmodelled(m, tid, k) ==
  /\ KeyIndex(m.heap[tid].ks, NormKey(k), 1) = 0
  /\ \/ tid \in LibIds
     \/ tid = GlobId /\ k.t = "str" /\ k.s \in StdUnmodelled
MetaT(m, tid, event) == IF m.heap[tid].mt # 0 THEN RawGetT(m.heap[m.heap[tid].mt], Str(event)) ELSE Nil
Meta(m, v, event) == IF v.t = "tab" THEN MetaT(m, v.hi, event) ELSE Nil

\* ================================================================ the observable world (LuaEnv)
\* rendered value: scalars by value, tables by raw contents (canonical key order) to depth 2, functions as "fn"
R(t, hi, lo, s, sh) == [t |-> t, hi |-> hi, lo |-> lo, s |-> s, sh |-> sh]
KeyRank(k) == CASE k.t = "num" -> 1 [] k.t = "str" -> 2 [] k.t = "bool" -> 3 [] OTHER -> 4
KeyLess(a, b) == IF KeyRank(a) # KeyRank(b) THEN KeyRank(a) < KeyRank(b)
                 ELSE CASE a.t = "num" -> FLt(D(a), D(b)) [] a.t = "str" -> StrLt(a.s, b.s)
                        [] a.t = "bool" -> a.hi < b.hi [] OTHER -> FALSE
RECURSIVE InsSorted(_, _, _, _), SortIdx(_, _, _)
InsSorted(ks, sorted, idx, j) ==      \* insert idx before the first element that is greater
  IF j > Len(sorted) THEN Append(sorted, idx)
  ELSE IF KeyLess(ks[idx], ks[sorted[j]]) THEN SubSeq(sorted, 1, j - 1) \o <<idx>> \o SubSeq(sorted, j, Len(sorted))
  ELSE InsSorted(ks, sorted, idx, j + 1)
SortIdx(ks, live, j) == IF j = 0 THEN <<>> ELSE InsSorted(ks, SortIdx(ks, live, j - 1), live[j], 1)
RECURSIVE RenderD(_, _, _)
RenderD(m, v, d) ==
  IF v.t = "tab" THEN
    IF d = 0 THEN R("tab", 0, 0, "...", <<>>)
    ELSE LET t == m.heap[v.hi] IN
         LET live == LiveIdx(t.vs, 1, <<>>) IN
         LET ord == SortIdx(t.ks, live, Len(live)) IN
         R("tab", 0, 0, "", [j \in 1..Len(ord) |-> <<RenderD(m, t.ks[ord[j]], 0), RenderD(m, t.vs[ord[j]], d - 1)>>])
  ELSE IF v.t \in {"fn", "bi", "ext"} THEN R("fn", 0, 0, "", <<>>)
  ELSE R(v.t, v.hi, v.lo, v.s, <<>>)
Render(m, v) == RenderD(m, v, 2)
RenderAll(m, vs) == [i \in 1..Len(vs) |-> Render(m, vs[i])]
\* the global table and the library tables cannot be rendered faithfully
RECURSIVE Special(_, _, _)
Special(m, v, d) ==
  v.t = "tab" /\ (v.hi <= DebugId \/ (d > 0 /\ \E i \in 1..Len(m.heap[v.hi].ks) :
                                         m.heap[v.hi].vs[i].t # "nil" /\ (Special(m, m.heap[v.hi].vs[i], d - 1) \/ Special(m, m.heap[v.hi].ks[i], 0))))
AnySpecial(m, vs) == \E i \in 1..Len(vs) : Special(m, vs[i], 2)

RECURSIVE CountCalls(_, _, _)
CountCalls(log, name, i) == IF i = 0 THEN 0 ELSE (IF log[i].f = name THEN 1 ELSE 0) + CountCalls(log, name, i - 1)
LoudEvents == <<"__index", "__newindex", "__call", "__add", "__sub", "__mul", "__div", "__mod", "__pow", "__unm",
                "__concat", "__eq", "__lt", "__le", "__tostring", "__len">>
LoudTable == [ks |-> [i \in 1..Len(LoudEvents) |-> Str(LoudEvents[i])],
              vs |-> [i \in 1..Len(LoudEvents) |-> Ext("meta:" \o LoudEvents[i])], mt |-> 0]
MetaResult(ev) ==
  CASE ev = "__index" -> <<NumI(7)>> [] ev = "__call" -> <<NumI(8)>> [] ev = "__concat" -> <<Str("c")>>
    [] ev \in {"__eq", "__lt", "__le"} -> <<Bool(TRUE)>> [] ev = "__tostring" -> <<Str("T")>>
    [] ev = "__newindex" -> <<>> [] OTHER -> <<NumI(9)>>
\* calling an external function value: log the call, return the scripted results
ExtCall(m, name, args) ==
  IF AnySpecial(m, args) THEN Unspec(m, "global/library table passed to an external function")
  ELSE
  LET nth == CountCalls(m.log, name, Len(m.log)) + 1 IN
  LET m1 == [m EXCEPT !.log = Append(m.log, [f |-> name, a |-> RenderAll(m, args)])] IN
  CASE name = "ext0" -> RetV(m1, <<>>)
    [] name = "ext1" -> RetV(m1, <<NumI(nth)>>)
    [] name = "ext2" -> RetV(m1, <<NumI(10 + nth), NumI(20 + nth)>>)
    [] name = "extn" -> RetV(m1, <<Nil>>)
    [] name = "extf" -> RetV(m1, <<Bool(FALSE)>>)
    [] name = "extt" -> RetV([m1 EXCEPT !.heap = Append(m1.heap, [EmptyTable EXCEPT !.mt = LoudId])], <<Tab(Len(m1.heap) + 1)>>)
    [] name = "extc" -> RetV(m1, <<Ext("extc#" \o IntStr(nth))>>)
    [] StrHasPrefix(name, "meta:") -> RetV(m1, MetaResult(StrSub(name, 6, Len(name))))
    [] OTHER -> RetV(m1, <<NumI(nth)>>)

\* ================================================================ initial machine
Lib(names, vals) == [ks |-> [i \in 1..Len(names) |-> Str(names[i])], vs |-> vals, mt |-> 0]
MathLib == Lib(<<"floor", "sqrt", "abs", "max", "min", "huge", "pi">>,
               <<Bi("math.floor"), Bi("math.sqrt"), Bi("math.abs"), Bi("math.max"), Bi("math.min"),
                 NumD(FDiv(FOfInt(1), FOfInt(0))), NumD(FOfDecimal("3.141592653589793"))>>)
StringLib == Lib(<<"format", "len", "rep">>, <<Bi("string.format"), Bi("string.len"), Bi("string.rep")>>)
TableLib == Lib(<<"insert", "concat", "unpack">>, <<Bi("table.insert"), Bi("table.concat"), Bi("unpack")>>)
DebugLib == Lib(<<"profilebegin", "profileend">>, <<Bi("debug.profilebegin"), Bi("debug.profileend")>>)
DefaultEnv == [assert |-> "real", profile |-> "real", gname |-> "", gval |-> Nil, gset |-> FALSE]
Init(P, env) ==
  [ ctl |-> Ctl("N", 0, <<>>),                                   \* the "blk" frame below starts the root block
    env |-> 2,
    envs |-> << Scope(0, TRUE, <<>>), Scope(1, TRUE, <<>>) >>,     \* 1 = ROOT scope (never holds names), 2 = main chunk
    store |-> <<>>,
    heap |-> << IF env.gset THEN RawSetT(EmptyTable, Str(env.gname), env.gval) ELSE EmptyTable,
                MathLib, StringLib, TableLib, DebugLib, LoudTable >>,
    clos |-> <<>>, kont |-> << Frame("blk", P.root, 0, <<>>, 2) >>,
    loaded |-> <<>>,
    cfg |-> [assert |-> env.assert, profile |-> env.profile],
    log |-> <<>>, ret |-> <<>>, st |-> "run", why |-> "", steps |-> 0, meta |-> 0 ]
