------------------------------- MODULE LuaSem -------------------------------
(* Executable small-step semantics of Lua 5.1 /\ Luau (the intersection): Step(P, m) is   *)
(* the deterministic successor of a CEK-style machine, Run(P, m, fuel) iterates it.       *)
(* Programs are flat node tables (NODEFORMAT.md). Whenever behaviour is implementation-   *)
(* defined or differs between the two dialects the machine stops with st = "unspec".      *)
(* The observable world (LuaEnv: ext* functions, Render) is part of this module.          *)
EXTENDS Integers, Sequences, TLC, IEEE754, LuaStr

\* ================================================================ values
\* uniform records: num -> hi/lo words; bool -> hi = 1/0; tab/fn -> hi = heap/closure id; bi/ext -> s = name
Val(t, hi, lo, s) == [t |-> t, hi |-> hi, lo |-> lo, s |-> s]
Nil      == Val("nil", 0, 0, "")
Bool(b)  == Val("bool", IF b THEN 1 ELSE 0, 0, "")
NumD(d)  == Val("num", d[1], d[2], "")
NumI(i)  == NumD(FOfInt(i))
Str(x)   == Val("str", 0, 0, x)
Tab(i)   == Val("tab", i, 0, "")
Fn(i)    == Val("fn", i, 0, "")
Bi(x)    == Val("bi", 0, 0, x)
Ext(x)   == Val("ext", 0, 0, x)
D(v)     == <<v.hi, v.lo>>
Truthy(v) == ~(v.t = "nil" \/ (v.t = "bool" /\ v.hi = 0))
First(vs) == IF vs = <<>> THEN Nil ELSE vs[1]
Nth(vs, i) == IF i >= 1 /\ i <= Len(vs) THEN vs[i] ELSE Nil
IsFunc(v) == v.t \in {"fn", "bi", "ext"}
Zero == FOfInt(0)
IsNaNV(v) == v.t = "num" /\ FIsNaN(D(v))
\* integer-valued number that fits the small range we index with
IsIntV(v) == v.t = "num" /\ FIsInt(D(v))
IntOf(v) == FToInt(D(v))
RECURSIVE RepStr(_, _)
RepStr(x, n) == IF n <= 0 THEN "" ELSE x \o RepStr(x, n - 1)
\* raw equality (Lua ==  without metamethods)
RawEq(a, b) == IF a.t = "num" /\ b.t = "num" THEN FEq(D(a), D(b))
               ELSE a.t = b.t /\ a.hi = b.hi /\ a.lo = b.lo /\ a.s = b.s
\* table keys: -0 is the same key as +0; NaN is never stored
NormKey(k) == IF k.t = "num" /\ FEq(D(k), Zero) THEN NumD(Zero) ELSE k
TypeName(v) == CASE v.t = "nil" -> "nil" [] v.t = "bool" -> "boolean" [] v.t = "num" -> "number"
                 [] v.t = "str" -> "string" [] v.t = "tab" -> "table" [] OTHER -> "function"

\* ================================================================ program access
Node(P, i) == P.nodes[i]

\* ================================================================ machine
Frame(k, n, i, vs, env) == [k |-> k, n |-> n, i |-> i, vs |-> vs, env |-> env]
Top(m) == m.kont[Len(m.kont)]
PopK(m) == [m EXCEPT !.kont = SubSeq(m.kont, 1, Len(m.kont) - 1)]
PushK(m, f) == [m EXCEPT !.kont = Append(m.kont, f)]
Ctl(md, n, vs) == [m |-> md, n |-> n, vs |-> vs]
Go(m, md, n, vs) == [m EXCEPT !.ctl = Ctl(md, n, vs)]
RetV(m, vs) == [m EXCEPT !.ctl = Ctl("V", 0, vs)]
Ret1(m, v) == [m EXCEPT !.ctl = Ctl("V", 0, <<v>>)]
Done(m) == [m EXCEPT !.ctl = Ctl("N", 0, <<>>)]
Err(m, why) == [m EXCEPT !.st = "error", !.why = why]
Unspec(m, why) == [m EXCEPT !.st = "unspec", !.why = why]

\* fixed heap ids created by Init
GlobId == 1   MathId == 2   StringId == 3   TableId == 4   DebugId == 5   LoudId == 6
LibIds == {MathId, StringId, TableId, DebugId}

\* ================================================================ environments
\* A persistent linked environment: every declaration is a new immutable node [par, x, l], so a
\* closure that captured env id e never sees later declarations. Function scopes are marker
\* nodes (x = "", fn = TRUE) carrying the varargs.
RECURSIVE LookupLoc(_, _, _), VarArgs(_, _)
LookupLoc(envs, e, x) == IF e = 0 THEN 0
                         ELSE IF envs[e].x = x THEN envs[e].l ELSE LookupLoc(envs, envs[e].par, x)
VarArgs(envs, e) == IF e = 0 THEN <<>> ELSE IF envs[e].fn THEN envs[e].va ELSE VarArgs(envs, envs[e].par)
Marker(par, va) == [par |-> par, x |-> "", l |-> 0, fn |-> TRUE, va |-> va]
NewScopeIn(m, par, va) ==
  [m EXCEPT !.envs = Append(m.envs, Marker(par, va)), !.env = Len(m.envs) + 1]
Declare(m, x, v) ==
  [m EXCEPT !.store = Append(m.store, v),
            !.envs = Append(m.envs, [par |-> m.env, x |-> x, l |-> Len(m.store) + 1, fn |-> FALSE, va |-> <<>>]),
            !.env = Len(m.envs) + 1]
RECURSIVE DeclareAll(_, _, _, _)
DeclareAll(m, names, vals, i) ==
  IF i > Len(names) THEN m
  ELSE DeclareAll(Declare(m, names[i], Nth(vals, i)), names, vals, i + 1)
EnvMark(e) == Val("env", e, 0, "")
\* Reclaiming environments: when a call or a loop iteration is over and no closure was created
\* since it began, the env nodes and store cells allocated since then are unreachable (only
\* closures and frames above keep env ids) and are dropped. The call/loop frames carry the mark
\* (last element of vs) and the closure count (field i) taken when they were pushed.
Mark(m) == Val("mark", Len(m.envs), Len(m.store), "")
Collect(m, mark, nclos) ==
  IF Len(m.clos) = nclos /\ (Len(m.envs) > mark.hi \/ Len(m.store) > mark.lo) /\ m.env <= mark.hi
  THEN [m EXCEPT !.envs = SubSeq(@, 1, mark.hi), !.store = SubSeq(@, 1, mark.lo)] ELSE m
FrameMark(f) == f.vs[Len(f.vs)]

\* ================================================================ tables (association lists in insertion order)
\* a nil value is a tombstone: the key stays (stable positions), every reader skips it
KeyIndex(ks, k, i) == SeqIndexOf(ks, k)        \* i is always 1 (LuaStr!SeqIndexOf: first index with ks[i] = k, or 0)
EmptyTable == [ks |-> <<>>, vs |-> <<>>, mt |-> 0]
RawGetT(t, k0) == LET k == NormKey(k0) IN LET i == KeyIndex(t.ks, k, 1) IN IF i = 0 THEN Nil ELSE t.vs[i]
HasKeyT(t, k0) == KeyIndex(t.ks, NormKey(k0), 1) # 0
RawSetT(t, k0, v) == LET k == NormKey(k0) IN LET i == KeyIndex(t.ks, k, 1) IN
                     IF i = 0 THEN (IF v.t = "nil" THEN t ELSE [t EXCEPT !.ks = Append(@, k), !.vs = Append(@, v)])
                     ELSE [t EXCEPT !.vs[i] = v]
\* in the global table and the library tables a nil assignment to an absent key leaves a tombstone:
\* it hides the built-in default (type = nil makes `type` nil)
RawSetH(m, tid, k0, v) ==
  LET t == m.heap[tid] IN LET k == NormKey(k0) IN
  IF tid <= 5 /\ v.t = "nil" /\ KeyIndex(t.ks, k, 1) = 0 THEN [t EXCEPT !.ks = Append(@, k), !.vs = Append(@, v)]
  ELSE RawSetT(t, k, v)
NewTable(m) == [m EXCEPT !.heap = Append(m.heap, EmptyTable)]
RECURSIVE LiveCount(_, _)
LiveCount(vs, i) == IF i = 0 THEN 0 ELSE (IF vs[i].t = "nil" THEN 0 ELSE 1) + LiveCount(vs, i - 1)
\* raw border: definite (>= 0) only when the live positive-integer keys are exactly 1..n; -1 otherwise
RECURSIVE PosIntKeys(_, _), HasAll(_, _)
PosIntKeys(t, i) == IF i = 0 THEN 0
                    ELSE (IF t.vs[i].t # "nil" /\ t.ks[i].t = "num" /\ FLt(Zero, D(t.ks[i])) /\ FEq(FFloor(D(t.ks[i])), D(t.ks[i])) THEN 1 ELSE 0)
                         + PosIntKeys(t, i - 1)
HasAll(t, n) == IF n = 0 THEN TRUE ELSE RawGetT(t, NumI(n)).t # "nil" /\ HasAll(t, n - 1)
Border(t) == LET n == PosIntKeys(t, Len(t.ks)) IN IF HasAll(t, n) THEN n ELSE -1
\* live entries are exactly the keys 1..n, inserted in ascending order (array-like for next/pairs)
RECURSIVE LiveIdx(_, _, _)
LiveIdx(vs, i, acc) == IF i > Len(vs) THEN acc ELSE LiveIdx(vs, i + 1, IF vs[i].t = "nil" THEN acc ELSE Append(acc, i))
RECURSIVE AscFrom(_, _, _)
AscFrom(t, live, j) == IF j > Len(live) THEN TRUE ELSE t.ks[live[j]] = NumI(j) /\ AscFrom(t, live, j + 1)

\* the global table resolves names without a user value to builtins / externals
StdUnmodelled == {"print", "xpcall", "loadstring", "load", "loadfile", "dofile", "coroutine", "os", "io", "package",
                  "module", "setfenv", "getfenv", "collectgarbage", "newproxy", "gcinfo", "bit32", "utf8", "buffer",
                  "vector", "typeof", "task", "game", "workspace", "script", "_VERSION", "shared", "Instance",
                  "table_", "arg"}
FnBuiltins == {"setmetatable", "getmetatable", "rawget", "rawset", "rawequal", "rawlen", "select", "type", "tostring",
               "tonumber", "ipairs", "next", "pairs", "unpack", "assert", "error", "pcall", "require"}
GlobalDefault(name) ==
  CASE name \in FnBuiltins -> Bi(name)
    [] name = "math" -> Tab(MathId) [] name = "string" -> Tab(StringId) [] name = "table" -> Tab(TableId)
    [] name = "debug" -> Tab(DebugId) [] name = "_G" -> Tab(GlobId)
    [] StrHasPrefix(name, "ext") -> Ext(name)
    [] OTHER -> Nil
\* raw read of heap table id tid
RawGet(m, tid, k) ==
  LET t == m.heap[tid] IN LET i == KeyIndex(t.ks, NormKey(k), 1) IN
  IF i # 0 THEN t.vs[i]
  ELSE IF tid = GlobId /\ k.t = "str" THEN GlobalDefault(k.s) ELSE Nil
\* reading an absent member of a library table, or a standard global we do not model, is not "nil"
RawGetUnmodelled(m, tid, k) ==
  /\ KeyIndex(m.heap[tid].ks, NormKey(k), 1) = 0
  /\ \/ tid \in LibIds
     \/ tid = GlobId /\ k.t = "str" /\ k.s \in StdUnmodelled
MetaT(m, tid, event) == IF m.heap[tid].mt # 0 THEN RawGetT(m.heap[m.heap[tid].mt], Str(event)) ELSE Nil
Meta(m, v, event) == IF v.t = "tab" THEN MetaT(m, v.hi, event) ELSE Nil

\* ================================================================ the observable world (LuaEnv)
\* rendered value: scalars by value, tables by raw contents (canonical key order) to depth 2, functions as "fn"
R(t, hi, lo, s, sh) == [t |-> t, hi |-> hi, lo |-> lo, s |-> s, sh |-> sh]
KeyRank(k) == CASE k.t = "num" -> 1 [] k.t = "str" -> 2 [] k.t = "bool" -> 3 [] OTHER -> 4
KeyLess(a, b) == IF KeyRank(a) # KeyRank(b) THEN KeyRank(a) < KeyRank(b)
                 ELSE CASE a.t = "num" -> FLt(D(a), D(b)) [] a.t = "str" -> StrLt(a.s, b.s)
                        [] a.t = "bool" -> a.hi < b.hi [] OTHER -> FALSE
RECURSIVE InsSorted(_, _, _, _), SortIdx(_, _, _)
InsSorted(ks, sorted, idx, j) ==      \* insert idx before the first element that is greater
  IF j > Len(sorted) THEN Append(sorted, idx)
  ELSE IF KeyLess(ks[idx], ks[sorted[j]]) THEN SubSeq(sorted, 1, j - 1) \o <<idx>> \o SubSeq(sorted, j, Len(sorted))
  ELSE InsSorted(ks, sorted, idx, j + 1)
SortIdx(ks, live, j) == IF j = 0 THEN <<>> ELSE InsSorted(ks, SortIdx(ks, live, j - 1), live[j], 1)
RECURSIVE RenderD(_, _, _)
RenderD(m, v, d) ==
  IF v.t = "tab" THEN
    IF d = 0 THEN R("tab", 0, 0, "...", <<>>)
    ELSE LET t == m.heap[v.hi] IN
         LET live == LiveIdx(t.vs, 1, <<>>) IN
         LET ord == SortIdx(t.ks, live, Len(live)) IN
         R("tab", 0, 0, "", [j \in 1..Len(ord) |-> <<RenderD(m, t.ks[ord[j]], 0), RenderD(m, t.vs[ord[j]], d - 1)>>])
  ELSE IF v.t \in {"fn", "bi", "ext"} THEN R("fn", 0, 0, "", <<>>)
  ELSE R(v.t, v.hi, v.lo, v.s, <<>>)
Render(m, v) == RenderD(m, v, 2)
RenderAll(m, vs) == [i \in 1..Len(vs) |-> Render(m, vs[i])]
\* the global table and the library tables cannot be rendered faithfully
RECURSIVE Special(_, _, _)
Special(m, v, d) ==
  v.t = "tab" /\ (v.hi <= DebugId \/ (d > 0 /\ \E i \in 1..Len(m.heap[v.hi].ks) :
                                         m.heap[v.hi].vs[i].t # "nil" /\ (Special(m, m.heap[v.hi].vs[i], d - 1) \/ Special(m, m.heap[v.hi].ks[i], 0))))
AnySpecial(m, vs) == \E i \in 1..Len(vs) : Special(m, vs[i], 2)

\* per-name call counters (m.cnt): the number of previous calls of an external function
CallsOf(m, name) == LET i == SeqIndexOf(m.cnt.ks, name) IN IF i = 0 THEN 0 ELSE m.cnt.vs[i]
Bump(m, name) == LET i == SeqIndexOf(m.cnt.ks, name) IN
                 IF i = 0 THEN [m EXCEPT !.cnt.ks = Append(@, name), !.cnt.vs = Append(@, 1)] ELSE [m EXCEPT !.cnt.vs[i] = @ + 1]
MaxLog == 5000     \* a longer log stops the run with st = "fuel"
LoudEvents == <<"__index", "__newindex", "__call", "__add", "__sub", "__mul", "__div", "__mod", "__pow", "__unm",
                "__concat", "__eq", "__lt", "__le", "__tostring", "__len">>
LoudTable == [ks |-> [i \in 1..Len(LoudEvents) |-> Str(LoudEvents[i])],
              vs |-> [i \in 1..Len(LoudEvents) |-> Ext("meta:" \o LoudEvents[i])], mt |-> 0]
MetaResult(ev) ==
  CASE ev = "__index" -> <<NumI(7)>> [] ev = "__call" -> <<NumI(8)>> [] ev = "__concat" -> <<Str("c")>>
    [] ev \in {"__eq", "__lt", "__le"} -> <<Bool(TRUE)>> [] ev = "__tostring" -> <<Str("T")>>
    [] ev = "__newindex" -> <<>> [] OTHER -> <<NumI(9)>>
\* calling an external function value: log the call, return the scripted results
ExtCall(m, name, args) ==
  IF AnySpecial(m, args) THEN Unspec(m, "global/library table passed to an external function")
  ELSE IF Len(m.log) >= MaxLog THEN [m EXCEPT !.st = "fuel", !.why = "external-call log too long"]
  ELSE
  LET nth == CallsOf(m, name) + 1 IN
  LET m1 == Bump([m EXCEPT !.log = Append(m.log, [f |-> name, a |-> RenderAll(m, args)])], name) IN
  CASE name = "ext0" -> RetV(m1, <<>>)
    [] name = "ext1" -> RetV(m1, <<NumI(nth)>>)
    [] name = "ext2" -> RetV(m1, <<NumI(10 + nth), NumI(20 + nth)>>)
    [] name = "extn" -> RetV(m1, <<Nil>>)
    [] name = "extf" -> RetV(m1, <<Bool(FALSE)>>)
    [] name = "extt" -> RetV([m1 EXCEPT !.heap = Append(m1.heap, [EmptyTable EXCEPT !.mt = LoudId])], <<Tab(Len(m1.heap) + 1)>>)
    [] name = "extc" -> RetV(m1, <<Ext("extc#" \o IntStr(nth))>>)
    [] StrHasPrefix(name, "meta:") -> RetV(m1, MetaResult(StrSub(name, 6, Len(name))))
    [] OTHER -> RetV(m1, <<NumI(nth)>>)

\* ================================================================ initial machine
Lib(names, vals) == [ks |-> [i \in 1..Len(names) |-> Str(names[i])], vs |-> vals, mt |-> 0]
MathLib == Lib(<<"floor", "sqrt", "abs", "max", "min", "huge", "pi">>,
               <<Bi("math.floor"), Bi("math.sqrt"), Bi("math.abs"), Bi("math.max"), Bi("math.min"),
                 NumD(FDiv(FOfInt(1), FOfInt(0))), NumD(FOfDecimal("3.141592653589793"))>>)
StringLib == Lib(<<"format", "len", "rep">>, <<Bi("string.format"), Bi("string.len"), Bi("string.rep")>>)
TableLib == Lib(<<"insert", "concat", "unpack">>, <<Bi("table.insert"), Bi("table.concat"), Bi("unpack")>>)
DebugLib == Lib(<<"profilebegin", "profileend">>, <<Bi("debug.profilebegin"), Bi("debug.profileend")>>)
DefaultEnv == [assert |-> "real", profile |-> "real", gname |-> "", gval |-> Nil, gset |-> FALSE]
Init(P, env) ==
  [ ctl |-> Ctl("N", 0, <<>>),                                   \* the "blk" frame below starts the root block
    env |-> 2,
    envs |-> << Marker(0, <<>>), Marker(1, <<>>) >>,               \* 1 = ROOT scope (never holds names), 2 = main chunk
    store |-> <<>>,
    heap |-> << IF env.gset THEN RawSetT(EmptyTable, Str(env.gname), env.gval) ELSE EmptyTable,
                MathLib, StringLib, TableLib, DebugLib, LoudTable >>,
    clos |-> <<>>, kont |-> << Frame("blk", P.root, 0, <<EnvMark(2)>>, 2) >>,
    loaded |-> <<>>, cnt |-> [ks |-> <<>>, vs |-> <<>>],
    cfg |-> [assert |-> env.assert, profile |-> env.profile],
    log |-> <<>>, ret |-> <<>>, st |-> "run", why |-> "", steps |-> 0, meta |-> 0 ]

\* ================================================================ coercions and pure operators
\* <<"ok"|"no"|"unspec", hi, lo>>
ToNum(v) == IF v.t = "num" THEN <<"ok", v.hi, v.lo>>
            ELSE IF v.t = "str"
                 THEN LET r == StrToNumber(v.s) IN
                      IF r[1] THEN <<"ok", r[2], r[3]>> ELSE IF StrNumUnsure(v.s) THEN <<"unspec", 0, 0>> ELSE <<"no", 0, 0>>
            ELSE <<"no", 0, 0>>
Half == FOfDecimal("0.5")
\* <<definite, double>>
Arith(op, x, y) ==
  CASE op = "+" -> <<TRUE, FAdd(x, y)>>
    [] op = "-" -> <<TRUE, FSub(x, y)>>
    [] op = "*" -> <<TRUE, FMul(x, y)>>
    [] op = "/" -> <<TRUE, FDiv(x, y)>>
    [] op = "//" -> <<TRUE, FFloor(FDiv(x, y))>>
    [] op = "%" -> LET a == FMod(x, y) IN <<a = FModLuau(x, y), a>>              \* 5.1 formula vs Luau fmod-based
    [] op = "^" -> LET p == FPow(x, y) IN
                   IF y = FOfInt(2) THEN <<p = FMul(x, x), p>>                     \* Luau fast paths for constant exponents
                   ELSE IF y = FOfInt(3) THEN <<p = FMul(FMul(x, x), x), p>>
                   ELSE IF y = Half THEN <<p = FSqrt(x), p>>
                   ELSE <<TRUE, p>>
    [] OTHER -> <<FALSE, x>>
ArithEvent(op) == CASE op = "+" -> "__add" [] op = "-" -> "__sub" [] op = "*" -> "__mul" [] op = "/" -> "__div"
                    [] op = "%" -> "__mod" [] op = "^" -> "__pow" [] op = "//" -> "__idiv" [] op = ".." -> "__concat"
                    [] op = "<" -> "__lt" [] op = "<=" -> "__le" [] op = "==" -> "__eq" [] OTHER -> ""
ArithOps == {"+", "-", "*", "/", "%", "^", "//"}

\* ================================================================ calls
RECURSIVE FindReq(_, _, _), FindLoaded(_, _, _)
FindReq(req, s, i) == IF i > Len(req) THEN 0 ELSE IF req[i].s = s THEN i ELSE FindReq(req, s, i + 1)
FindLoaded(ld, s, i) == IF i > Len(ld) THEN 0 ELSE IF ld[i].s = s THEN i ELSE FindLoaded(ld, s, i + 1)
\* two require strings that denote the same module root are the same module (one file reached through
\* different spellings): the loaded-table is keyed by the string of the FIRST req entry with that root
RECURSIVE CanonReq(_, _, _)
CanonReq(req, root, i) == IF req[i].root = root THEN req[i].s ELSE CanonReq(req, root, i + 1)
\* start executing the statements of block b; restore env `renv` when the block is left (-1: keep the
\* block's final environment, used by `repeat` whose condition sees the body's locals). The frame
\* records in vs the block-level environment reached so far (needed by `continue` inside `repeat`).
EnterBlock(P, m, b, renv) ==
  LET l == Node(P, b).l IN
  IF l = <<>> THEN Go(IF renv = -1 THEN m ELSE [m EXCEPT !.env = renv], "N", 0, <<>>)
  ELSE Go(PushK(m, Frame("blk", b, 1, <<EnvMark(m.env)>>, renv)), "X", l[1], <<>>)
ExecBlock(P, m, b) == EnterBlock(P, m, b, m.env)

\* ---- string.format
RECURSIVE FmtGo(_, _, _, _, _)
FmtGo(segs, i, args, ai, acc) ==      \* <<"ok"|"err"|"unspec", string>>
  IF i > Len(segs) THEN <<"ok", acc>>
  ELSE LET k == segs[i][1] IN
       IF k = "lit" THEN FmtGo(segs, i + 1, args, ai, acc \o segs[i][2])
       ELSE IF k = "bad" THEN <<"unspec", "string.format: unsupported directive">>
       ELSE IF ai > Len(args) THEN <<"err", "string.format: missing argument">>
       ELSE LET v == args[ai] IN
            IF k = "s" THEN
              IF v.t = "str" THEN FmtGo(segs, i + 1, args, ai + 1, acc \o v.s)
              ELSE IF v.t = "num" THEN LET r == NumToStr(D(v)) IN
                   IF r[1] THEN FmtGo(segs, i + 1, args, ai + 1, acc \o r[2]) ELSE <<"unspec", "number formatting">>
              ELSE <<"unspec", "string.format %s of a non-string (5.1 errors, Luau converts)">>
            ELSE LET n == ToNum(v) IN
                 IF n[1] = "no" THEN <<"err", "string.format: number expected">>
                 ELSE IF n[1] = "unspec" THEN <<"unspec", "string->number coercion">>
                 ELSE LET d == <<n[2], n[3]>> IN LET r == NumToStr(d) IN
                      IF FEq(d, Zero) THEN FmtGo(segs, i + 1, args, ai + 1, acc \o "0")
                      ELSE IF r[1] /\ FEq(FFloor(d), d) /\ FEq(FSub(d, d), Zero)
                      THEN FmtGo(segs, i + 1, args, ai + 1, acc \o r[2])
                      ELSE <<"unspec", "string.format %d of a non-integer or huge number">>

\* ---- next
NextOf(m, tid, k) ==                   \* <<"ok"|"unspec", values>>
  IF tid <= DebugId THEN <<"unspec", <<>>>> ELSE
  LET t == m.heap[tid] IN
  LET live == LiveIdx(t.vs, 1, <<>>) IN LET n == Len(live) IN
  IF k.t = "nil" THEN
    IF n = 0 THEN <<"ok", <<Nil>>>>
    ELSE IF n = 1 \/ AscFrom(t, live, 1) THEN <<"ok", <<t.ks[live[1]], t.vs[live[1]]>>>>
    ELSE <<"unspec", <<>>>>
  ELSE LET i == KeyIndex(t.ks, NormKey(k), 1) IN
       IF i = 0 \/ (i # 0 /\ t.vs[i].t = "nil") THEN <<"unspec", <<>>>>
       ELSE IF n = 1 THEN <<"ok", <<Nil>>>>
       ELSE IF AscFrom(t, live, 1)
            THEN LET j == IntOf(k) IN
                 IF j < n THEN <<"ok", <<t.ks[live[j + 1]], t.vs[live[j + 1]]>>>> ELSE <<"ok", <<Nil>>>>
            ELSE <<"unspec", <<>>>>

RECURSIVE MaxMin(_, _, _, _)
MaxMin(ismax, ds, i, acc) ==
  IF i > Len(ds) THEN acc
  ELSE MaxMin(ismax, ds, i + 1, IF (ismax /\ FLt(acc, ds[i])) \/ (~ismax /\ FLt(ds[i], acc)) THEN ds[i] ELSE acc)
AllNums(args) == \A i \in 1..Len(args) : args[i].t = "num"
RECURSIVE InsertShift(_, _, _, _)
InsertShift(t, i, pos, v) ==           \* t[i] = t[i-1] for i = n+1 down to pos+1, then t[pos] = v
  IF i = pos THEN RawSetT(t, NumI(pos), v)
  ELSE InsertShift(RawSetT(t, NumI(i), RawGetT(t, NumI(i - 1))), i - 1, pos, v)
RECURSIVE ConcatGo(_, _, _, _, _)
ConcatGo(t, i, n, sep, acc) ==         \* <<ok, string>>
  IF i > n THEN <<TRUE, acc>>
  ELSE LET v == RawGetT(t, NumI(i)) IN
       LET s == IF v.t = "str" THEN <<TRUE, v.s>> ELSE IF v.t = "num" THEN NumToStr(D(v)) ELSE <<FALSE, "">> IN
       IF ~s[1] THEN <<FALSE, "">>
       ELSE ConcatGo(t, i + 1, n, sep, acc \o (IF i > 1 THEN sep ELSE "") \o s[2])

RECURSIVE Call(_, _, _, _)
CallMeta(P, m, h, args) == Call(P, [m EXCEPT !.meta = @ + 1], h, args)
\* push a frame that post-processes the results of the call
CallWith(P, m, fk, h, args) == Call(P, PushK(m, Frame(fk, 0, 0, <<>>, m.env)), h, args)
CallMetaWith(P, m, fk, h, args) == CallMeta(P, PushK(m, Frame(fk, 0, 0, <<>>, m.env)), h, args)

\* tostring semantics; delivers <<Str(..)>> to the top frame
ToStrStep(P, m, v) ==
  CASE v.t = "str"  -> Ret1(m, v)
    [] v.t = "nil"  -> Ret1(m, Str("nil"))
    [] v.t = "bool" -> Ret1(m, Str(IF v.hi = 1 THEN "true" ELSE "false"))
    [] v.t = "num"  -> LET r == NumToStr(D(v)) IN IF r[1] THEN Ret1(m, Str(r[2])) ELSE Unspec(m, "number formatting: " \o r[2])
    [] v.t = "tab"  -> LET h == Meta(m, v, "__tostring") IN
                       IF h.t = "nil" THEN Unspec(m, "tostring(table)")
                       ELSE CallMetaWith(P, m, "tostr", h, <<v>>)
    [] OTHER -> Unspec(m, "tostring(function)")

CallBi(P, m, name, args) ==
  LET a1 == Nth(args, 1) IN LET a2 == Nth(args, 2) IN LET a3 == Nth(args, 3) IN LET na == Len(args) IN
  CASE name = "setmetatable" ->
         IF na < 2 \/ a1.t # "tab" \/ a2.t \notin {"tab", "nil"} THEN Err(m, "bad argument to setmetatable")
         ELSE IF a1.hi <= DebugId THEN Unspec(m, "setmetatable on the global/library table")
         ELSE IF MetaT(m, a1.hi, "__metatable").t # "nil" THEN Unspec(m, "__metatable field")
         ELSE Ret1([m EXCEPT !.heap[a1.hi].mt = IF a2.t = "tab" THEN a2.hi ELSE 0], a1)
    [] name = "getmetatable" ->
         IF na < 1 THEN Err(m, "bad argument to getmetatable")
         ELSE IF a1.t = "str" THEN Unspec(m, "getmetatable(string)")
         ELSE IF a1.t # "tab" \/ m.heap[a1.hi].mt = 0 THEN Ret1(m, Nil)
         ELSE IF MetaT(m, a1.hi, "__metatable").t # "nil" THEN Unspec(m, "__metatable field")
         ELSE Ret1(m, Tab(m.heap[a1.hi].mt))
    [] name = "rawget" ->
         IF na < 2 \/ a1.t # "tab" THEN Err(m, "bad argument to rawget")
         ELSE IF RawGetUnmodelled(m, a1.hi, a2) THEN Unspec(m, "unmodelled library member")
         ELSE Ret1(m, RawGet(m, a1.hi, a2))
    [] name = "rawset" ->
         IF na < 3 \/ a1.t # "tab" THEN Err(m, "bad argument to rawset")
         ELSE IF a2.t = "nil" \/ IsNaNV(a2) THEN Err(m, "table index is nil or NaN")
         ELSE Ret1([m EXCEPT !.heap[a1.hi] = RawSetH(m, a1.hi, a2, a3)], a1)
    [] name = "rawequal" -> IF na < 2 THEN Err(m, "bad argument to rawequal") ELSE Ret1(m, Bool(RawEq(a1, a2)))
    [] name = "rawlen" -> Unspec(m, "rawlen does not exist in Lua 5.1")
    [] name = "select" ->
         IF na < 1 THEN Err(m, "bad argument to select")
         ELSE IF a1.t = "str" /\ a1.s = "#" THEN Ret1(m, NumI(na - 1))
         ELSE IF a1.t = "num" THEN
              IF ~IsIntV(a1) THEN Unspec(m, "select with a non-integer index")
              ELSE LET n == IntOf(a1) IN
                   IF n < 0 THEN Unspec(m, "select with a negative index")
                   ELSE IF n = 0 THEN Err(m, "bad argument #1 to select (index out of range)")
                   ELSE RetV(m, IF n >= na THEN <<>> ELSE SubSeq(args, n + 1, na))
         ELSE IF a1.t = "str" /\ ToNum(a1)[1] # "no" THEN Unspec(m, "select with a numeric string")
         ELSE Err(m, "bad argument #1 to select")
    [] name = "type" -> IF na < 1 THEN Err(m, "bad argument to type") ELSE Ret1(m, Str(TypeName(a1)))
    [] name = "tostring" -> IF na < 1 THEN Err(m, "bad argument to tostring") ELSE ToStrStep(P, m, a1)
    [] name = "tonumber" ->
         IF na < 1 THEN Err(m, "bad argument to tonumber")
         ELSE IF a2.t # "nil" THEN Unspec(m, "tonumber with a base")
         ELSE LET n == ToNum(a1) IN
              IF n[1] = "ok" THEN Ret1(m, NumD(<<n[2], n[3]>>))
              ELSE IF n[1] = "unspec" THEN Unspec(m, "string->number coercion: " \o a1.s)
              ELSE Ret1(m, Nil)
    [] name = "ipairs" ->
         IF na < 1 THEN Err(m, "bad argument to ipairs")
         ELSE IF a1.t # "tab" THEN Unspec(m, "ipairs of a non-table")
         ELSE IF m.heap[a1.hi].mt # 0 THEN Unspec(m, "ipairs of a table with a metatable")
         ELSE IF a1.hi <= DebugId THEN Unspec(m, "ipairs of the global/library table")
         ELSE RetV(m, <<Bi("ipairs_iter"), a1, NumI(0)>>)
    [] name = "ipairs_iter" ->
         IF a1.t # "tab" \/ ~IsIntV(a2) THEN Err(m, "bad argument to the ipairs iterator")
         ELSE IF m.heap[a1.hi].mt # 0 THEN Unspec(m, "ipairs of a table with a metatable")
         ELSE IF IntOf(a2) < 0 \/ IntOf(a2) > 1000000 THEN Unspec(m, "ipairs iterator with a huge or negative index")
         ELSE LET i == IntOf(a2) + 1 IN LET v == RawGetT(m.heap[a1.hi], NumI(i)) IN
              IF v.t = "nil" THEN RetV(m, <<>>) ELSE RetV(m, <<NumI(i), v>>)
    [] name = "next" ->
         IF na < 1 \/ a1.t # "tab" THEN Err(m, "bad argument to next")
         ELSE LET r == NextOf(m, a1.hi, a2) IN
              IF r[1] = "ok" THEN RetV(m, r[2]) ELSE Unspec(m, "next: traversal order")
    [] name = "pairs" ->
         IF na < 1 THEN Err(m, "bad argument to pairs")
         ELSE IF a1.t # "tab" THEN Unspec(m, "pairs of a non-table")
         ELSE IF MetaT(m, a1.hi, "__pairs").t # "nil" \/ MetaT(m, a1.hi, "__iter").t # "nil" THEN Unspec(m, "__pairs/__iter")
         ELSE RetV(m, <<Bi("next"), a1, Nil>>)
    [] name = "unpack" ->
         IF na < 1 \/ a1.t # "tab" THEN Err(m, "bad argument to unpack")
         ELSE IF a1.hi <= DebugId THEN Unspec(m, "unpack of the global/library table")
         ELSE LET t == m.heap[a1.hi] IN
              LET lo == IF a2.t = "nil" THEN NumI(1) ELSE a2 IN
              LET bd == IF a3.t = "nil" THEN Border(t) ELSE 0 IN
              IF a3.t = "nil" /\ bd < 0 THEN Unspec(m, "unpack: border of a table with holes")
              ELSE LET hi == IF a3.t = "nil" THEN NumI(bd) ELSE a3 IN
                   IF lo.t # "num" \/ hi.t # "num" THEN
                        (IF ToNum(lo)[1] = "no" \/ ToNum(hi)[1] = "no" THEN Err(m, "bad argument to unpack") ELSE Unspec(m, "unpack with string bounds"))
                   ELSE IF ~IsIntV(lo) \/ ~IsIntV(hi) THEN Unspec(m, "unpack with non-integer bounds")
                   ELSE LET i == IntOf(lo) IN LET j == IntOf(hi) IN
                        IF i < -1000000 \/ i > 1000000 \/ j < -1000000 \/ j > 1000000 THEN Unspec(m, "unpack: huge bounds")
                        ELSE IF j - i >= 200 THEN Unspec(m, "unpack: too many results")
                        ELSE RetV(m, [x \in 1..(IF j < i THEN 0 ELSE j - i + 1) |-> RawGetT(t, NumI(i + x - 1))])
    [] name = "assert" ->
         IF m.cfg.assert = "identity" THEN RetV(m, args)
         ELSE IF na < 1 THEN Err(m, "bad argument to assert")
         ELSE IF Truthy(a1) THEN RetV(m, args) ELSE Err(m, "assertion failed")
    [] name = "error" -> Err(m, "error called" \o (IF a1.t = "str" THEN ": " \o a1.s ELSE ""))
    [] name = "pcall" -> Unspec(m, "pcall is not modelled")
    [] name = "math.floor" \/ name = "math.sqrt" \/ name = "math.abs" ->
         LET n == ToNum(a1) IN
         IF na < 1 \/ n[1] = "no" THEN Err(m, "bad argument to " \o name)
         ELSE IF n[1] = "unspec" THEN Unspec(m, "string->number coercion")
         ELSE LET d == <<n[2], n[3]>> IN
              Ret1(m, NumD(CASE name = "math.floor" -> FFloor(d) [] name = "math.sqrt" -> FSqrt(d)
                             [] OTHER -> IF FSignBit(d) THEN FNeg(d) ELSE d))
    [] name = "math.max" \/ name = "math.min" ->
         IF na < 1 THEN Err(m, "bad argument to " \o name)
         ELSE IF ~AllNums(args) THEN
              (IF \E i \in 1..na : ToNum(args[i])[1] = "no" THEN Err(m, "bad argument to " \o name) ELSE Unspec(m, name \o " with string arguments"))
         ELSE Ret1(m, NumD(MaxMin(name = "math.max", [i \in 1..na |-> D(args[i])], 2, D(a1))))
    [] name = "string.format" ->
         IF na < 1 \/ a1.t \notin {"str", "num"} THEN Err(m, "bad argument to string.format")
         ELSE IF a1.t = "num" THEN Unspec(m, "string.format with a number as format")
         ELSE LET r == FmtGo(FmtParse(a1.s), 1, args, 2, "") IN
              IF r[1] = "ok" THEN Ret1(m, Str(r[2])) ELSE IF r[1] = "err" THEN Err(m, r[2]) ELSE Unspec(m, r[2])
    [] name = "string.len" ->
         IF a1.t = "str" THEN Ret1(m, NumI(Len(a1.s)))
         ELSE IF a1.t = "num" THEN LET r == NumToStr(D(a1)) IN IF r[1] THEN Ret1(m, NumI(Len(r[2]))) ELSE Unspec(m, "number formatting")
         ELSE Err(m, "bad argument to string.len")
    [] name = "string.rep" ->
         \* string.rep(s, n): s a string (numbers are not modelled here), n an integer-valued number; a third argument
         \* (separator) exists in neither Lua 5.1 nor Luau's 5.1 signature differences worth modelling
         IF na < 2 THEN Err(m, "bad argument to string.rep")
         ELSE IF a1.t # "str" \/ a2.t # "num" \/ na > 2 THEN Unspec(m, "string.rep with a coerced argument or a separator")
         ELSE IF ~IsIntV(a2) THEN Unspec(m, "string.rep with a non-integer count")
         ELSE LET n == IF FLt(D(a2), FOfInt(100000)) /\ FLt(FOfInt(-100000), D(a2)) THEN IntOf(a2) ELSE 100000 IN
              IF n <= 0 THEN Ret1(m, Str(""))
              ELSE IF n * Len(a1.s) > 4000 THEN Unspec(m, "string.rep result too long for the model")
              ELSE Ret1(m, Str(RepStr(a1.s, n)))
    [] name = "table.insert" ->
         IF na < 1 \/ a1.t # "tab" THEN Err(m, "bad argument to table.insert")
         ELSE IF na # 2 /\ na # 3 THEN Err(m, "wrong number of arguments to table.insert")
         ELSE IF a1.hi <= DebugId THEN Unspec(m, "table.insert on the global/library table")
         ELSE LET t == m.heap[a1.hi] IN LET n == Border(t) IN
              IF n < 0 THEN Unspec(m, "table.insert: border of a table with holes")
              ELSE IF na = 2 THEN (IF a2.t = "nil" THEN RetV(m, <<>>) ELSE RetV([m EXCEPT !.heap[a1.hi] = RawSetT(@, NumI(n + 1), a2)], <<>>))
              ELSE IF a2.t # "num" THEN (IF ToNum(a2)[1] = "no" THEN Err(m, "bad argument #2 to table.insert") ELSE Unspec(m, "table.insert with a string position"))
              ELSE IF ~IsIntV(a2) THEN Unspec(m, "table.insert with a non-integer position")
              ELSE LET pos == IntOf(a2) IN
                   IF pos < 1 \/ pos > n + 1 THEN Unspec(m, "table.insert: position out of bounds")
                   ELSE IF a3.t = "nil" /\ pos <= n THEN Unspec(m, "table.insert of nil (creates a hole)")
                   ELSE RetV([m EXCEPT !.heap[a1.hi] = InsertShift(t, n + 1, pos, a3)], <<>>)
    [] name = "table.concat" ->
         IF na < 1 \/ a1.t # "tab" THEN Err(m, "bad argument to table.concat")
         ELSE IF na > 2 \/ a2.t \notin {"nil", "str"} \/ a1.hi <= DebugId THEN Unspec(m, "table.concat: only (t [, sep]) is modelled")
         ELSE LET t == m.heap[a1.hi] IN LET n == Border(t) IN
              IF n < 0 THEN Unspec(m, "table.concat: border of a table with holes")
              ELSE LET r == ConcatGo(t, 1, n, IF a2.t = "str" THEN a2.s ELSE "", "") IN
                   IF r[1] THEN Ret1(m, Str(r[2])) ELSE Unspec(m, "table.concat: element is not a string or a definite number")
    [] name = "debug.profilebegin" \/ name = "debug.profileend" ->
         IF m.cfg.profile = "noop" THEN RetV(m, <<>>)
         ELSE IF name = "debug.profilebegin" /\ a1.t \notin {"str", "num"} THEN Err(m, "bad argument #1 to debug.profilebegin (string expected)")
         ELSE IF AnySpecial(m, args) THEN Unspec(m, "global/library table passed to an external function")
         ELSE IF Len(m.log) >= MaxLog THEN [m EXCEPT !.st = "fuel", !.why = "external-call log too long"]
         ELSE RetV([m EXCEPT !.log = Append(m.log, [f |-> name, a |-> RenderAll(m, args)])], <<>>)
    [] name = "require" ->
         IF a1.t # "str" THEN Err(m, "require: argument is not a string")
         ELSE LET r == FindReq(P.req, a1.s, 1) IN
              IF r = 0 THEN Err(m, "require: unknown module " \o a1.s)
              ELSE LET cs == CanonReq(P.req, P.req[r].root, 1) IN LET c == FindLoaded(m.loaded, cs, 1) IN
              IF c # 0 THEN (IF m.loaded[c].done THEN Ret1(m, m.loaded[c].v) ELSE Err(m, "require: cycle through " \o a1.s))
              ELSE LET m1 == [m EXCEPT !.loaded = Append(@, [s |-> cs, v |-> Nil, nret |-> 0, done |-> FALSE])] IN
                   LET m2 == PushK(m1, Frame("reqret", 0, Len(m1.loaded), <<>>, m.env)) IN
                   LET m3 == NewScopeIn(m2, 1, <<>>) IN
                   EnterBlock(P, m3, P.req[r].root, m3.env)
    [] OTHER -> Err(m, "unknown builtin " \o name)

Call(P, m, f, args) ==
  IF f.t = "ext" THEN ExtCall(m, f.s, args)
  ELSE IF f.t = "fn" THEN
    LET c == m.clos[f.hi] IN
    LET fnode == Node(P, c.fn) IN
    LET ps == IF c.self THEN <<"self">> \o fnode.ns ELSE fnode.ns IN
    LET np == Len(ps) IN
    LET extra == IF fnode.c = 1 /\ Len(args) > np THEN SubSeq(args, np + 1, Len(args)) ELSE <<>> IN
    LET m1 == PushK(m, Frame("callret", 0, Len(m.clos), <<Mark(m)>>, m.env)) IN
    LET m2 == NewScopeIn(m1, c.env, extra) IN
    EnterBlock(P, DeclareAll(m2, ps, args, 1), fnode.b, m.env)
  ELSE IF f.t = "bi" THEN CallBi(P, m, f.s, args)
  ELSE LET h == Meta(m, f, "__call") IN
       IF h.t = "nil" THEN Err(m, "attempt to call a " \o TypeName(f) \o " value")
       ELSE IF IsFunc(h) THEN CallMeta(P, m, h, <<f>> \o args)
       ELSE IF Meta(m, h, "__call").t # "nil" THEN Unspec(m, "__call handler is itself a callable table (5.1 does not chain)")
       ELSE Err(m, "attempt to call a " \o TypeName(f) \o " value")
Call1(P, m, f, args) == CallWith(P, m, "one", f, args)
MkClosure(m, fnode, self) == [m EXCEPT !.clos = Append(m.clos, [fn |-> fnode, env |-> m.env, self |-> self])]

\* ================================================================ indexing with metamethods
RECURSIVE GetIndex(_, _, _, _, _), SetIndex(_, _, _, _, _, _)
\* delivers <<value>> to the top frame
GetIndex(P, m, o, k, depth) ==
  IF depth > 50 THEN Unspec(m, "__index chain too long")
  ELSE IF o.t = "tab" THEN
    IF RawGetUnmodelled(m, o.hi, k) THEN Unspec(m, "unmodelled standard library member or global")
    ELSE
    LET raw == RawGet(m, o.hi, k) IN
    IF raw.t # "nil" THEN Ret1(m, raw)
    ELSE LET h == Meta(m, o, "__index") IN
         IF h.t = "nil" THEN Ret1(m, Nil)
         ELSE IF IsFunc(h) THEN CallMetaWith(P, m, "one", h, <<o, k>>)
         ELSE GetIndex(P, m, h, k, depth + 1)
  \* the metatable of strings has __index = the `string` library table (heap[3], by identity: reassigning the global
  \* `string` does not change it); members of the library that are not modelled end in `unspec`
  ELSE IF o.t = "str" THEN GetIndex(P, m, Tab(3), k, depth + 1)
  ELSE Err(m, "attempt to index a " \o TypeName(o) \o " value")
\* continues with mode "N" when done
SetIndex(P, m, o, k, v, depth) ==
  IF depth > 50 THEN Unspec(m, "__newindex chain too long")
  ELSE IF o.t = "tab" THEN
    LET raw == RawGet(m, o.hi, k) IN
    LET h == Meta(m, o, "__newindex") IN
    IF raw.t # "nil" \/ h.t = "nil"
    THEN IF k.t = "nil" \/ IsNaNV(k) THEN Err(m, "table index is nil or NaN")
         ELSE Done([m EXCEPT !.heap[o.hi] = RawSetH(m, o.hi, k, v)])
    ELSE IF IsFunc(h) THEN CallMetaWith(P, m, "drop", h, <<o, k, v>>)
    ELSE SetIndex(P, m, h, k, v, depth + 1)
  ELSE Err(m, "attempt to index a " \o TypeName(o) \o " value")
GlobalGet(P, m, name) == GetIndex(P, m, Tab(GlobId), Str(name), 0)
SetVar(P, m, name, v) ==
  LET l == LookupLoc(m.envs, m.env, name) IN
  IF l # 0 THEN Done([m EXCEPT !.store[l] = v]) ELSE SetIndex(P, m, Tab(GlobId), Str(name), v, 0)

\* a local variable operand that the implementations keep in its register (not copied) was
\* re-assigned while a later operand was evaluated: the abstract left-to-right value is stale
RECURSIVE StripParen(_, _)
StripParen(P, n) == IF Node(P, n).k \in {"paren", "cast", "tinst"} THEN StripParen(P, Node(P, n).a) ELSE n
LocalStale(P, m, n, v) ==
  LET x == Node(P, StripParen(P, n)) IN
  x.k = "var" /\ LET l == LookupLoc(m.envs, m.env, x.s) IN l # 0 /\ m.store[l] # v

\* ================================================================ binary operators (operands already evaluated)
Compare(P, m, op, a, b, neg) ==         \* op is "<" or "<="; neg: result negated (never used for 5.1 order ops, kept FALSE)
  IF a.t = "num" /\ b.t = "num" THEN Ret1(m, Bool(IF op = "<" THEN FLt(D(a), D(b)) ELSE FLe(D(a), D(b))))
  ELSE IF a.t = "str" /\ b.t = "str" THEN Ret1(m, Bool(IF op = "<" THEN StrLt(a.s, b.s) ELSE (a.s = b.s \/ StrLt(a.s, b.s))))
  ELSE LET ev == ArithEvent(op) IN LET h1 == Meta(m, a, ev) IN LET h2 == Meta(m, b, ev) IN
       IF h1.t = "nil" /\ h2.t = "nil" THEN
            IF op = "<=" /\ (Meta(m, a, "__lt").t # "nil" \/ Meta(m, b, "__lt").t # "nil")
            THEN Unspec(m, "__le absent, __lt present (5.1 falls back to not __lt(b, a))")
            ELSE Err(m, "attempt to compare " \o TypeName(a) \o " with " \o TypeName(b))
       ELSE IF a.t = "tab" /\ b.t = "tab" /\ h1 = h2 THEN CallMetaWith(P, m, "tobool", h1, <<a, b>>)
       ELSE Unspec(m, "order metamethod: operands of different types or with different handlers")

BinOp(P, m, op, a, b) ==
  IF op \in ArithOps THEN
    LET x == ToNum(a) IN LET y == ToNum(b) IN
    IF x[1] = "ok" /\ y[1] = "ok" THEN
      LET r == Arith(op, <<x[2], x[3]>>, <<y[2], y[3]>>) IN
      IF r[1] THEN Ret1(m, NumD(r[2])) ELSE Unspec(m, "arithmetic corner case where Lua 5.1 and Luau may differ: " \o op)
    ELSE IF x[1] # "no" /\ y[1] # "no" THEN Unspec(m, "string->number coercion")
    ELSE LET ev == ArithEvent(op) IN
         LET h1 == Meta(m, a, ev) IN LET h == IF h1.t # "nil" THEN h1 ELSE Meta(m, b, ev) IN
         IF h.t = "nil" THEN Err(m, "attempt to perform arithmetic on a " \o TypeName(IF x[1] = "no" THEN a ELSE b) \o " value")
         ELSE IF op = "//" THEN Unspec(m, "__idiv is Luau-only")
         ELSE CallMetaWith(P, m, "one", h, <<a, b>>)
  ELSE IF op = ".." THEN
    IF a.t \in {"str", "num"} /\ b.t \in {"str", "num"} THEN
      LET sa == IF a.t = "num" THEN NumToStr(D(a)) ELSE <<TRUE, a.s>> IN
      LET sb == IF b.t = "num" THEN NumToStr(D(b)) ELSE <<TRUE, b.s>> IN
      IF sa[1] /\ sb[1] THEN Ret1(m, Str(sa[2] \o sb[2])) ELSE Unspec(m, "number formatting in concatenation")
    ELSE LET h1 == Meta(m, a, "__concat") IN LET h == IF h1.t # "nil" THEN h1 ELSE Meta(m, b, "__concat") IN
         IF h.t = "nil" THEN Err(m, "attempt to concatenate a " \o TypeName(IF a.t \in {"str", "num"} THEN b ELSE a) \o " value")
         ELSE CallMetaWith(P, m, "one", h, <<a, b>>)
  ELSE IF op \in {"==", "~="} THEN
    IF ~(a.t = "tab" /\ b.t = "tab") \/ RawEq(a, b) THEN Ret1(m, Bool((op = "==") = RawEq(a, b)))
    ELSE LET h1 == Meta(m, a, "__eq") IN LET h2 == Meta(m, b, "__eq") IN
         IF h1.t = "nil" /\ h2.t = "nil" THEN Ret1(m, Bool(op = "~="))
         ELSE IF h1 # h2 THEN Unspec(m, "__eq: the operands have different handlers")
         ELSE IF op = "==" THEN CallMetaWith(P, m, "tobool", h1, <<a, b>>)
         ELSE CallMeta(P, PushK(PushK(m, Frame("not", 0, 0, <<>>, m.env)), Frame("tobool", 0, 0, <<>>, m.env)), h1, <<a, b>>)
  ELSE IF op = "<" \/ op = "<=" THEN Compare(P, m, op, a, b, FALSE)
  ELSE IF op = ">" THEN Compare(P, m, "<", b, a, FALSE)
  ELSE IF op = ">=" THEN Compare(P, m, "<=", b, a, FALSE)
  ELSE Err(m, "unknown binary operator " \o op)

\* ================================================================ expression lists
Exprs(P, n, w) == IF w = 1 THEN Node(P, n).l ELSE Node(P, n).m
\* evaluate list w of node n; the value list is delivered to the frame on top of m
StartList(P, m, n, w) ==
  IF Exprs(P, n, w) = <<>> THEN RetV(m, <<>>)
  ELSE Go(PushK(m, Frame("list", n, 1, <<>>, w)), "E", Exprs(P, n, w)[1], <<>>)
MultiKinds == {"call", "mcall", "vararg"}
EvalOne(P, m, n) == IF Node(P, n).k \in MultiKinds THEN Go(PushK(m, Frame("one", n, 0, <<>>, m.env)), "E", n, <<>>)
                    ELSE Go(m, "E", n, <<>>)
FrameE(m, k, n, i, vs, e) == Go(PushK(m, Frame(k, n, i, vs, m.env)), "E", e, <<>>)

\* table constructor: start entry i of node n (table value t, next positional index pos)
TabEntry(P, m, n, i, t, pos) ==
  LET e == Node(P, Node(P, n).l[i]) IN
  IF e.k = "tkey" THEN FrameE(m, "tabK", n, i, <<t, NumI(pos)>>, e.a)
  ELSE IF e.k = "tnamed" THEN FrameE(m, "tab", n, i, <<t, NumI(pos), Str(e.s)>>, e.a)
  ELSE FrameE(m, "tab", n, i, <<t, NumI(pos), Nil>>, e.a)
RECURSIVE SetPositional(_, _, _, _)
SetPositional(t, pos, vals, j) ==       \* <<ok, table>>; not ok: slot already taken
  IF j > Len(vals) THEN <<TRUE, t>>
  ELSE IF RawGetT(t, NumI(pos + j - 1)).t # "nil" THEN <<FALSE, t>>
  ELSE SetPositional(RawSetT(t, NumI(pos + j - 1), vals[j]), pos, vals, j + 1)

\* interpolated string: continue with segment i, acc = text so far
RECURSIVE InterpNext(_, _, _, _, _)
InterpNext(P, m, n, i, acc) ==
  LET segs == Node(P, n).l IN
  IF i > Len(segs) THEN Ret1(m, Str(acc))
  ELSE LET sg == Node(P, segs[i]) IN
       IF sg.k = "istr" THEN InterpNext(P, m, n, i + 1, acc \o sg.s)
       ELSE Go(PushK(PushK(m, Frame("interp", n, i, <<Str(acc)>>, m.env)), Frame("tostrv", n, 0, <<>>, m.env)), "E", sg.a, <<>>)

\* ================================================================ Eval: ctl = <<"E", node>>
Eval(P, m, n) ==
  LET nd == Node(P, n) IN
  CASE nd.k = "nil"   -> Ret1(m, Nil)
    [] nd.k = "true"  -> Ret1(m, Bool(TRUE))
    [] nd.k = "false" -> Ret1(m, Bool(FALSE))
    [] nd.k = "num"   -> Ret1(m, Val("num", nd.hi, nd.lo, ""))
    [] nd.k = "str"   -> Ret1(m, Str(nd.s))
    [] nd.k = "vararg" -> RetV(m, VarArgs(m.envs, m.env))
    [] nd.k = "var"   -> LET l == LookupLoc(m.envs, m.env, nd.s) IN
                         IF l # 0 THEN Ret1(m, m.store[l]) ELSE GlobalGet(P, m, nd.s)
    [] nd.k = "fn"    -> Ret1(MkClosure(m, n, FALSE), Fn(Len(m.clos) + 1))
    [] nd.k \in {"paren", "cast", "tinst"} -> EvalOne(P, m, nd.a)
    [] nd.k = "bin"   -> FrameE(m, "binL", n, 0, <<>>, nd.a)
    [] nd.k \in {"and", "or"} -> FrameE(m, nd.k, n, 0, <<>>, nd.a)
    [] nd.k \in {"not", "neg", "len"} -> FrameE(m, nd.k, n, 0, <<>>, nd.a)
    [] nd.k = "call"  -> FrameE(m, "callF", n, 0, <<>>, nd.a)
    [] nd.k = "mcall" -> FrameE(m, "mcallO", n, 0, <<>>, nd.a)
    [] nd.k = "index" -> FrameE(m, "idxO", n, 0, <<>>, nd.a)
    [] nd.k = "field" -> FrameE(m, "fldO", n, 0, <<>>, nd.a)
    [] nd.k = "table" -> LET m1 == NewTable(m) IN LET t == Tab(Len(m1.heap)) IN
                         IF nd.l = <<>> THEN Ret1(m1, t) ELSE TabEntry(P, m1, n, 1, t, 1)
    [] nd.k = "ifexp" -> FrameE(m, "ifeC", n, 0, <<>>, nd.a)
    [] nd.k = "interp" -> InterpNext(P, m, n, 1, "")
    [] OTHER -> Err(m, "eval: unknown node kind " \o nd.k)

\* ================================================================ assignment helpers
\* targets are evaluated left to right into acc = <<obj1, key1, obj2, key2, ...>> (<<Nil, Nil>> for a variable)
RECURSIVE AsgNext(_, _, _, _, _)
AsgNext(P, m, n, i, acc) ==
  LET ts == Node(P, n).l IN
  IF i > Len(ts) THEN StartList(P, PushK(m, Frame("asgV", n, 0, acc, m.env)), n, 2)
  ELSE LET t == Node(P, ts[i]) IN
       IF t.k = "var" THEN AsgNext(P, m, n, i + 1, acc \o <<Nil, Nil>>)
       ELSE IF t.k \in {"index", "field"} THEN FrameE(m, "asgO", n, i, acc, t.a)
       ELSE Err(m, "assignment to a non-lvalue")
\* slot of target i: a store cell (loc # 0) or a table/key pair (a global variable is _G[name])
Slot(P, m, n, acc, i) ==
  LET t == Node(P, Node(P, n).l[i]) IN
  IF t.k = "var" THEN LET l == LookupLoc(m.envs, m.env, t.s) IN
                      IF l # 0 THEN [loc |-> l, o |-> Nil, k |-> Nil] ELSE [loc |-> 0, o |-> Tab(GlobId), k |-> Str(t.s)]
  ELSE [loc |-> 0, o |-> acc[2 * i - 1], k |-> NormKey(acc[2 * i])]
TargetStale(P, m, n, acc, i) ==
  LET t == Node(P, Node(P, n).l[i]) IN
  /\ t.k \in {"index", "field"}
  /\ \/ LocalStale(P, m, t.a, acc[2 * i - 1])
     \/ t.k = "index" /\ LocalStale(P, m, t.b, acc[2 * i])
RECURSIVE AssignAll(_, _, _, _)
AssignAll(m, slots, vals, i) ==
  IF i > Len(slots) THEN m
  ELSE LET s == slots[i] IN LET v == Nth(vals, i) IN
       AssignAll(IF s.loc # 0 THEN [m EXCEPT !.store[s.loc] = v] ELSE [m EXCEPT !.heap[s.o.hi] = RawSetH(m, s.o.hi, s.k, v)], slots, vals, i + 1)
MultiAssign(P, m, n, acc, vals) ==
  LET nt == Len(Node(P, n).l) IN
  LET slots == [i \in 1..nt |-> Slot(P, m, n, acc, i)] IN
  IF \E i \in 1..nt : TargetStale(P, m, n, acc, i) THEN Unspec(m, "local used in an assignment target was re-assigned while later operands were evaluated")
  ELSE IF \E i, j \in 1..nt : i < j /\ slots[i] = slots[j] THEN Unspec(m, "multiple assignment to the same variable or table slot (order unspecified)")
  ELSE IF \E i \in 1..nt : slots[i].loc = 0 /\ slots[i].o.t = "tab" /\ RawGet(m, slots[i].o.hi, slots[i].k).t = "nil"
                           /\ Meta(m, slots[i].o, "__newindex").t # "nil"
       THEN Unspec(m, "multiple assignment involving __newindex (order unspecified)")
  ELSE IF \E i \in 1..nt : slots[i].loc = 0 /\ slots[i].o.t # "tab" THEN Err(m, "attempt to index a non-table value in an assignment")
  ELSE IF \E i \in 1..nt : slots[i].loc = 0 /\ (slots[i].k.t = "nil" \/ IsNaNV(slots[i].k)) THEN Err(m, "table index is nil or NaN")
  ELSE Done(AssignAll(m, slots, vals, 1))

\* ================================================================ loops
\* numeric for: f.vs = <<current, stop, step>> (doubles as values); test and enter the body, or leave
ForIter(P, m, f) ==
  LET i == D(f.vs[1]) IN LET stop == D(f.vs[2]) IN LET step == D(f.vs[3]) IN
  LET m0 == Collect([m EXCEPT !.env = f.env], FrameMark(f), f.i) IN
  IF (IF FLt(Zero, step) THEN FLe(i, stop) ELSE FLe(stop, i))
  THEN LET m1 == PushK(m0, [f EXCEPT !.vs[1] = NumD(FAdd(i, step)), !.vs[4] = Mark(m0), !.i = Len(m0.clos)]) IN
       LET m2 == Declare(m1, Node(P, f.n).s, NumD(i)) IN
       EnterBlock(P, m2, Node(P, f.n).b, f.env)
  ELSE Done(m0)
\* generic for: f.vs = <<f, s, control>>; call the iterator
GforCall(P, m, f) ==
  LET it == f.vs[1] IN
  LET m0 == Collect([m EXCEPT !.env = f.env], FrameMark(f), f.i) IN
  LET m1 == PushK(m0, [f EXCEPT !.k = "gforR", !.vs[4] = Mark(m0), !.i = Len(m0.clos)]) IN
  IF IsFunc(it) THEN Call(P, m1, it, <<f.vs[2], f.vs[3]>>)
  ELSE IF it.t = "tab" THEN
       IF Meta(m, it, "__iter").t # "nil" THEN Unspec(m, "generic for: __iter is Luau-only")
       ELSE IF Meta(m, it, "__call").t = "nil" THEN Unspec(m, "generic for over a table (Luau iterates it, Lua 5.1 errors)")
       ELSE Call(P, m1, it, <<f.vs[2], f.vs[3]>>)
  ELSE Err(m, "attempt to call a " \o TypeName(it) \o " value (for iterator)")
StartRepeat(P, m, n) == EnterBlock(P, PushK(m, Frame("rptB", n, Len(m.clos), <<Mark(m)>>, m.env)), Node(P, n).a, -1)
LoopFrames == {"whB", "rptB", "forL", "gforL"}
CallFrames == {"callret", "reqret"}
RECURSIVE FindFrame(_, _, _, _)
FindFrame(kont, i, kinds, barrier) ==    \* topmost frame of a kind in `kinds` above any frame in `barrier`; 0 if none
  IF i = 0 THEN 0 ELSE IF kont[i].k \in kinds THEN i ELSE IF kont[i].k \in barrier THEN 0 ELSE FindFrame(kont, i - 1, kinds, barrier)

\* ================================================================ Exec: ctl = <<"X", node>>
Exec(P, m, n) ==
  LET nd == Node(P, n) IN
  CASE nd.k = "block" -> ExecBlock(P, m, n)
    [] nd.k = "do"    -> ExecBlock(P, m, nd.a)
    [] nd.k = "local"   -> IF nd.l = <<>> THEN Done(DeclareAll(m, nd.ns, <<>>, 1))
                           ELSE StartList(P, PushK(m, Frame("local", n, 0, <<>>, m.env)), n, 1)
    [] nd.k = "localfn" -> LET m1 == Declare(m, nd.s, Nil) IN
                           LET m2 == MkClosure(m1, nd.a, FALSE) IN
                           Done([m2 EXCEPT !.store[Len(m2.store)] = Fn(Len(m2.clos))])
    [] nd.k = "assign"  -> AsgNext(P, m, n, 1, <<>>)
    [] nd.k = "compound" ->
         LET t == Node(P, nd.a) IN
         IF t.k = "var" THEN
           LET l == LookupLoc(m.envs, m.env, t.s) IN
           IF l # 0 THEN FrameE(m, "cmpR", n, 0, <<Nil, Nil, m.store[l]>>, nd.b)
           ELSE GetIndex(P, PushK(m, Frame("cmpC", n, 0, <<Tab(GlobId), Str(t.s)>>, m.env)), Tab(GlobId), Str(t.s), 0)
         ELSE IF t.k \in {"index", "field"} THEN FrameE(m, "cmpO", n, 0, <<>>, t.a)
         ELSE Err(m, "compound assignment to a non-lvalue")
    [] nd.k = "callstmt" -> FrameE(m, "drop", n, 0, <<>>, nd.a)
    [] nd.k = "funcstmt" ->
         IF Len(nd.ns) = 0 THEN Err(m, "funcstmt without a name")
         ELSE IF Len(nd.ns) = 1 /\ nd.s = "" THEN SetVar(P, MkClosure(m, nd.a, FALSE), nd.ns[1], Fn(Len(m.clos) + 1))
         ELSE LET l == LookupLoc(m.envs, m.env, nd.ns[1]) IN
              LET m1 == PushK(m, Frame("fsP", n, 1, <<>>, m.env)) IN
              IF l # 0 THEN Ret1(m1, m.store[l]) ELSE GlobalGet(P, m1, nd.ns[1])
    [] nd.k = "if"      -> IF Len(nd.l) < 2 THEN Err(m, "malformed if") ELSE FrameE(m, "ifC", n, 1, <<>>, nd.l[1])
    [] nd.k = "while"   -> FrameE(m, "whC", n, 0, <<>>, nd.a)
    [] nd.k = "repeat"  -> StartRepeat(P, m, n)
    [] nd.k = "numfor"  -> StartList(P, PushK(m, Frame("forI", n, 0, <<>>, m.env)), n, 1)
    [] nd.k = "genfor"  -> StartList(P, PushK(m, Frame("gforI", n, 0, <<>>, m.env)), n, 1)
    [] nd.k = "ret"     -> StartList(P, PushK(m, Frame("ret", n, 0, <<>>, m.env)), n, 1)
    [] nd.k = "break"   -> Go(m, "B", 0, <<>>)
    [] nd.k = "continue" -> Go(m, "C", 0, <<>>)
    [] nd.k = "typedecl" -> Done(m)
    [] OTHER -> Err(m, "exec: unknown node kind " \o nd.k)

\* ================================================================ ResumeV: a value list reaches the (popped) top frame f
ResumeV(P, m, f, vs) ==
  LET v == First(vs) IN
  CASE f.k = "list" ->
         LET es == Exprs(P, f.n, f.env) IN
         IF f.i < Len(es) THEN Go(PushK(m, [f EXCEPT !.i = f.i + 1, !.vs = Append(f.vs, v)]), "E", es[f.i + 1], <<>>)
         ELSE RetV(m, f.vs \o vs)
    [] f.k = "one"  -> Ret1(m, v)
    [] f.k = "tobool" -> Ret1(m, Bool(Truthy(v)))
    [] f.k = "not"  -> Ret1(m, Bool(~Truthy(v)))
    [] f.k = "drop" -> Done(m)
    [] f.k = "tostr" -> IF v.t = "str" THEN Ret1(m, v) ELSE Err(m, "'__tostring' must return a string")
    [] f.k = "tostrv" -> ToStrStep(P, m, v)
    [] f.k = "interp" -> InterpNext(P, m, f.n, f.i + 1, f.vs[1].s \o v.s)
    [] f.k = "binL" -> FrameE(m, "binR", f.n, 0, <<v>>, Node(P, f.n).b)
    [] f.k = "binR" -> LET nd == Node(P, f.n) IN
                       IF nd.s # ".." /\ LocalStale(P, m, nd.a, f.vs[1])
                       THEN Unspec(m, "local operand re-assigned while the right operand was evaluated")
                       ELSE BinOp(P, m, nd.s, f.vs[1], v)
    [] f.k = "and"  -> IF Truthy(v) THEN EvalOne(P, m, Node(P, f.n).b) ELSE Ret1(m, v)
    [] f.k = "or"   -> IF Truthy(v) THEN Ret1(m, v) ELSE EvalOne(P, m, Node(P, f.n).b)
    [] f.k = "ifeC" -> IF Truthy(v) THEN EvalOne(P, m, Node(P, f.n).b) ELSE EvalOne(P, m, Node(P, f.n).c)
    [] f.k = "neg"  -> LET x == ToNum(v) IN
                       IF x[1] = "ok" THEN Ret1(m, NumD(FNeg(<<x[2], x[3]>>)))
                       ELSE IF x[1] = "unspec" THEN Unspec(m, "string->number coercion")
                       ELSE LET h == Meta(m, v, "__unm") IN
                            IF h.t = "nil" THEN Err(m, "attempt to perform arithmetic on a " \o TypeName(v) \o " value")
                            ELSE CallMetaWith(P, m, "one", h, <<v, v>>)
    [] f.k = "len"  -> IF v.t = "str" THEN Ret1(m, NumI(Len(v.s)))
                       ELSE IF v.t = "tab" THEN
                            IF Meta(m, v, "__len").t # "nil" THEN Unspec(m, "__len on a table (ignored by Lua 5.1, honoured by Luau)")
                            ELSE IF v.hi <= DebugId THEN Unspec(m, "# of the global/library table")
                            ELSE LET b == Border(m.heap[v.hi]) IN
                                 IF b < 0 THEN Unspec(m, "# of a table with holes") ELSE Ret1(m, NumI(b))
                       ELSE Err(m, "attempt to get length of a " \o TypeName(v) \o " value")
    [] f.k = "callF"  -> StartList(P, PushK(m, Frame("callA", f.n, 0, <<v>>, f.env)), f.n, 1)
    [] f.k = "callA"  -> Call(P, m, f.vs[1], Tail(f.vs) \o vs)
    [] f.k = "mcallO" -> GetIndex(P, PushK(m, Frame("mcallF", f.n, 0, <<v>>, f.env)), v, Str(Node(P, f.n).s), 0)
    [] f.k = "mcallF" -> StartList(P, PushK(m, Frame("callA", f.n, 0, <<v, f.vs[1]>>, f.env)), f.n, 1)
    [] f.k = "idxO" -> FrameE(m, "idxK", f.n, 0, <<v>>, Node(P, f.n).b)
    [] f.k = "idxK" -> IF LocalStale(P, m, Node(P, f.n).a, f.vs[1])
                       THEN Unspec(m, "local table operand re-assigned while the key was evaluated")
                       ELSE GetIndex(P, m, f.vs[1], v, 0)
    [] f.k = "fldO" -> GetIndex(P, m, v, Str(Node(P, f.n).s), 0)
    [] f.k = "tabK" -> IF v.t = "nil" \/ IsNaNV(v) THEN Err(m, "table index is nil or NaN")
                       ELSE FrameE(m, "tab", f.n, f.i, Append(f.vs, v), Node(P, Node(P, f.n).l[f.i]).b)
    [] f.k = "tab"  ->
         LET nd == Node(P, f.n) IN LET t == f.vs[1] IN LET pos == IntOf(f.vs[2]) IN LET key == f.vs[3] IN
         LET last == f.i = Len(nd.l) IN
         IF key.t # "nil" THEN
           IF RawGetT(m.heap[t.hi], key).t # "nil" THEN Unspec(m, "duplicate key in a table constructor (store order is implementation-defined)")
           ELSE LET m1 == [m EXCEPT !.heap[t.hi] = RawSetT(@, key, v)] IN
                IF last THEN Ret1(m1, t) ELSE TabEntry(P, m1, f.n, f.i + 1, t, pos)
         ELSE LET vals == IF last THEN vs ELSE <<v>> IN
              LET r == SetPositional(m.heap[t.hi], pos, vals, 1) IN
              IF ~r[1] THEN Unspec(m, "duplicate key in a table constructor (store order is implementation-defined)")
              ELSE LET m1 == [m EXCEPT !.heap[t.hi] = r[2]] IN
                   IF last THEN Ret1(m1, t) ELSE TabEntry(P, m1, f.n, f.i + 1, t, pos + 1)
    [] f.k = "local" -> Done(DeclareAll(m, Node(P, f.n).ns, vs, 1))
    [] f.k = "asgO" -> LET t == Node(P, Node(P, f.n).l[f.i]) IN
                       IF t.k = "field" THEN AsgNext(P, m, f.n, f.i + 1, f.vs \o <<v, Str(t.s)>>)
                       ELSE FrameE(m, "asgK", f.n, f.i, Append(f.vs, v), t.b)
    [] f.k = "asgK" -> AsgNext(P, m, f.n, f.i + 1, Append(f.vs, v))
    [] f.k = "asgV" -> LET ts == Node(P, f.n).l IN
                       IF Len(ts) # 1 THEN MultiAssign(P, m, f.n, f.vs, vs)
                       ELSE IF Node(P, ts[1]).k = "var" THEN SetVar(P, m, Node(P, ts[1]).s, v)
                       ELSE IF TargetStale(P, m, f.n, f.vs, 1) THEN Unspec(m, "local used in an assignment target was re-assigned while the value was evaluated")
                       ELSE SetIndex(P, m, f.vs[1], f.vs[2], v, 0)
    [] f.k = "cmpO" -> LET t == Node(P, Node(P, f.n).a) IN
                       IF t.k = "field" THEN GetIndex(P, PushK(m, Frame("cmpC", f.n, 0, <<v, Str(t.s)>>, f.env)), v, Str(t.s), 0)
                       ELSE FrameE(m, "cmpK", f.n, 0, <<v>>, t.b)
    [] f.k = "cmpK" -> GetIndex(P, PushK(m, Frame("cmpC", f.n, 0, <<f.vs[1], v>>, f.env)), f.vs[1], v, 0)
    [] f.k = "cmpC" -> FrameE(m, "cmpR", f.n, 0, <<f.vs[1], f.vs[2], v>>, Node(P, f.n).b)
    [] f.k = "cmpR" -> LET nd == Node(P, f.n) IN LET t == Node(P, nd.a) IN
                       IF \/ t.k = "var" /\ f.vs[1].t = "nil" /\ LocalStale(P, m, nd.a, f.vs[3])
                          \/ t.k \in {"index", "field"} /\ LocalStale(P, m, t.a, f.vs[1])
                          \/ t.k = "index" /\ LocalStale(P, m, t.b, f.vs[2])
                       THEN Unspec(m, "local used by a compound assignment was re-assigned while the value was evaluated")
                       ELSE BinOp(P, PushK(m, Frame("cmpS", f.n, 0, <<f.vs[1], f.vs[2]>>, f.env)), nd.s, f.vs[3], v)
    [] f.k = "cmpS" -> IF f.vs[1].t = "nil" THEN SetVar(P, m, Node(P, Node(P, f.n).a).s, v)
                       ELSE SetIndex(P, m, f.vs[1], f.vs[2], v, 0)
    [] f.k = "fsP"  -> LET nd == Node(P, f.n) IN
                       LET lastObj == IF nd.s # "" THEN Len(nd.ns) ELSE Len(nd.ns) - 1 IN
                       IF f.i < lastObj THEN GetIndex(P, PushK(m, [f EXCEPT !.i = f.i + 1]), v, Str(nd.ns[f.i + 1]), 0)
                       ELSE SetIndex(P, MkClosure(m, nd.a, nd.s # ""), v, Str(IF nd.s # "" THEN nd.s ELSE nd.ns[Len(nd.ns)]), Fn(Len(m.clos) + 1), 0)
    [] f.k = "ifC"  -> LET nd == Node(P, f.n) IN
                       IF Truthy(v) THEN ExecBlock(P, m, nd.l[f.i + 1])
                       ELSE IF f.i + 3 <= Len(nd.l) THEN FrameE(m, "ifC", f.n, f.i + 2, <<>>, nd.l[f.i + 2])
                       ELSE IF nd.c # 0 THEN ExecBlock(P, m, nd.c) ELSE Done(m)
    [] f.k = "whC"  -> IF Truthy(v) THEN ExecBlock(P, PushK(m, Frame("whB", f.n, Len(m.clos), <<Mark(m)>>, m.env)), Node(P, f.n).b) ELSE Done(m)
    [] f.k = "rptC" -> LET m1 == Collect([m EXCEPT !.env = f.env], FrameMark(f), f.i) IN
                       IF Truthy(v) THEN Done(m1) ELSE StartRepeat(P, m1, f.n)
    [] f.k = "forI" ->
         LET nd == Node(P, f.n) IN
         LET a == Nth(vs, 1) IN LET b == Nth(vs, 2) IN LET s == IF Len(nd.l) >= 3 THEN Nth(vs, 3) ELSE NumI(1) IN
         IF a.t # "num" \/ b.t # "num" \/ s.t # "num" THEN
              IF ToNum(a)[1] = "no" \/ ToNum(b)[1] = "no" \/ ToNum(s)[1] = "no" THEN Err(m, "'for' initial value, limit and step must be numbers")
              ELSE Unspec(m, "numeric for with string bounds")
         ELSE IF FIsNaN(D(a)) \/ FIsNaN(D(b)) \/ FIsNaN(D(s)) THEN Unspec(m, "numeric for with NaN")
         ELSE IF FEq(D(s), Zero) THEN Unspec(m, "numeric for with step 0 (Luau errors, Lua 5.1 loops forever)")
         ELSE IF FAdd(FSub(D(a), D(s)), D(s)) # D(a) THEN Unspec(m, "numeric for: (init - step) + step differs from init (5.1 pre-subtracts the step)")
         ELSE ForIter(P, m, Frame("forL", f.n, Len(m.clos), <<a, b, s, Mark(m)>>, f.env))
    [] f.k = "gforI" -> GforCall(P, m, Frame("gforL", f.n, Len(m.clos), <<Nth(vs, 1), Nth(vs, 2), Nth(vs, 3), Mark(m)>>, f.env))
    [] f.k = "gforR" ->
         IF v.t = "nil" THEN Done(Collect([m EXCEPT !.env = f.env], FrameMark(f), f.i))
         ELSE LET m1 == PushK(m, [f EXCEPT !.k = "gforL", !.vs[3] = v]) IN
              EnterBlock(P, DeclareAll(m1, Node(P, f.n).ns, vs, 1), Node(P, f.n).b, f.env)
    [] f.k = "ret"  -> Go(m, "R", 0, vs)
    [] OTHER -> Err(m, "resume V: unexpected frame " \o f.k)

\* ================================================================ ResumeN: a statement completed normally; f is the (popped) top frame
FinishReq(m, f, vs) ==
  RetV([m EXCEPT !.env = f.env, !.loaded[f.i] = [@ EXCEPT !.v = First(vs), !.nret = Len(vs), !.done = TRUE]], <<First(vs)>>)
ResumeN(P, m, f) ==
  CASE f.k = "blk" ->
         LET l == Node(P, f.n).l IN
         IF f.i < Len(l) THEN Go(PushK(m, [f EXCEPT !.i = f.i + 1, !.vs = <<EnvMark(m.env)>>]), "X", l[f.i + 1], <<>>)
         ELSE Done(IF f.env = -1 THEN m ELSE [m EXCEPT !.env = f.env])
    [] f.k = "whB" -> FrameE(Collect([m EXCEPT !.env = f.env], FrameMark(f), f.i), "whC", f.n, 0, <<>>, Node(P, f.n).a)
    [] f.k = "rptB" -> Go(PushK(m, [f EXCEPT !.k = "rptC"]), "E", Node(P, f.n).b, <<>>)
    [] f.k = "forL" -> ForIter(P, m, f)
    [] f.k = "gforL" -> GforCall(P, m, f)
    [] f.k = "callret" -> RetV(Collect([m EXCEPT !.env = f.env], FrameMark(f), f.i), <<>>)
    [] f.k = "reqret" -> FinishReq(m, f, <<>>)
    [] OTHER -> Err(m, "resume N: unexpected frame " \o f.k)

\* ================================================================ Step / Run
Finish(m, vs) == [m EXCEPT !.st = "done", !.ret = RenderAll(m, vs), !.kont = <<>>]
Step(P, m0) ==
  LET c == m0.ctl IN
  LET m == [m0 EXCEPT !.steps = @ + 1] IN
  LET nk == Len(m.kont) IN
  CASE c.m = "E" -> Eval(P, m, c.n)
    [] c.m = "X" -> Exec(P, m, c.n)
    [] c.m = "V" -> IF nk = 0 THEN Err(m, "value delivered to an empty continuation") ELSE ResumeV(P, PopK(m), m.kont[nk], c.vs)
    [] c.m = "N" -> IF nk = 0 THEN Finish(m, <<>>) ELSE ResumeN(P, PopK(m), m.kont[nk])
    [] c.m = "R" -> LET j == FindFrame(m.kont, nk, CallFrames, {}) IN
                    IF j = 0 THEN (IF AnySpecial(m, c.vs) THEN Unspec(m, "global/library table returned by the main chunk") ELSE Finish(m, c.vs))
                    ELSE LET f == m.kont[j] IN LET m1 == [m EXCEPT !.kont = SubSeq(m.kont, 1, j - 1)] IN
                         IF f.k = "reqret" THEN FinishReq(m1, f, c.vs) ELSE RetV(Collect([m1 EXCEPT !.env = f.env], FrameMark(f), f.i), c.vs)
    [] c.m = "B" -> LET j == FindFrame(m.kont, nk, LoopFrames, CallFrames) IN
                    IF j = 0 THEN Err(m, "break outside a loop")
                    ELSE Done(Collect([m EXCEPT !.kont = SubSeq(m.kont, 1, j - 1), !.env = m.kont[j].env], FrameMark(m.kont[j]), m.kont[j].i))
    [] c.m = "C" -> LET j == FindFrame(m.kont, nk, LoopFrames, CallFrames) IN
                    IF j = 0 THEN Err(m, "continue outside a loop")
                    ELSE LET f == m.kont[j] IN
                         Done([m EXCEPT !.kont = SubSeq(m.kont, 1, j),
                                        !.env = IF f.k = "rptB" THEN (IF j < nk THEN m.kont[j + 1].vs[1].hi ELSE m.env) ELSE f.env])
    [] OTHER -> Err(m, "unknown control mode")

RECURSIVE Run(_, _, _)
Run(P, m, fuel) == IF m.st # "run" \/ fuel = 0 THEN m ELSE Run(P, Step(P, m), fuel - 1)
Obs(m) == [st |-> m.st, log |-> m.log, ret |-> m.ret]
=============================================================================
