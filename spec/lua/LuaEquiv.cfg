INIT EqInit
NEXT EqNext
CHECK_DEADLOCK FALSE
