------------------------------- MODULE LuaEquiv -------------------------------
(* Batch runner: every case of the ndjson file named by the environment variable CASES is *)
(* one behaviour (one initial state per case, so TLC parallelises over workers).          *)
(*   mode "equiv": run a to completion, then b with fuel 20*a.steps + 2000, print verdict *)
(*   mode "run"  : run a only, print its status, log and return values                    *)
(* Output: exactly one raw line per case:  VERDICT {json}                                 *)
EXTENDS Integers, Sequences, TLC, Json, IOUtils, LuaSem

Cases == ndJsonDeserialize(IOEnv.CASES)
FuelA == 200000
Macro == 250

Has(r, f) == f \in DOMAIN r
ProgOf(p) == [root |-> p.root, nodes |-> p.nodes, req |-> IF Has(p, "req") THEN p.req ELSE <<>>]
\* JSON value record [t, hi, lo, s, b] -> machine value (scalars only)
GV(g) == CASE g.t = "bool" -> Bool(g.b = 1) [] g.t = "num" -> Val("num", g.hi, g.lo, "") [] g.t = "str" -> Str(g.s) [] OTHER -> Nil
EnvOf(e) == [assert |-> e.assert, profile |-> e.profile, gname |-> e.gname, gval |-> GV(e.gval), gset |-> e.gset = 1]
CaseEnv(c, f) == IF Has(c, f) THEN EnvOf(c[f]) ELSE DefaultEnv
PA(c) == ProgOf(c.a)
PB(c) == IF c.mode = "equiv" THEN ProgOf(c.b) ELSE ProgOf(c.a)

VARIABLES i, ma, mb, phase
vars == <<i, ma, mb, phase>>

EqInit == /\ i \in 1..Len(Cases)
          /\ ma = Init(PA(Cases[i]), CaseEnv(Cases[i], "enva"))
          /\ mb = Init(PB(Cases[i]), CaseEnv(Cases[i], "envb"))
          /\ phase = "a"

Advance(P, m, cap) == IF m.steps >= cap THEN [m EXCEPT !.st = "fuel", !.why = "fuel exhausted"] ELSE Run(P, m, Macro)
FuelB == 20 * ma.steps + 2000

StepA == /\ phase = "a"
         /\ IF ma.st = "run"
            THEN /\ ma' = Advance(PA(Cases[i]), ma, FuelA) /\ phase' = phase
            ELSE /\ ma' = ma /\ phase' = IF Cases[i].mode = "equiv" /\ ma.st = "done" THEN "b" ELSE "report"
         /\ UNCHANGED <<i, mb>>
StepB == /\ phase = "b"
         /\ IF mb.st = "run"
            THEN /\ mb' = Advance(PB(Cases[i]), mb, FuelB) /\ phase' = phase
            ELSE /\ mb' = mb /\ phase' = "report"
         /\ UNCHANGED <<i, ma>>

\* ---------------------------------------------------------------- verdict
RECURSIVE FirstDiff(_, _, _)
FirstDiff(x, y, k) == IF k > Len(x) \/ k > Len(y) THEN (IF Len(x) = Len(y) THEN 0 ELSE k)
                      ELSE IF x[k] # y[k] THEN k ELSE FirstDiff(x, y, k + 1)
At(x, k) == IF k >= 1 /\ k <= Len(x) THEN <<x[k]>> ELSE <<>>
NoDetail == [what |-> "", idx |-> 0, a |-> <<>>, b |-> <<>>]
Verdict ==
  IF ma.st # "done" THEN "discard"
  ELSE IF mb.st = "done" /\ mb.log = ma.log /\ mb.ret = ma.ret THEN "equal"
  ELSE IF mb.st = "unspec" THEN "unknown"
  ELSE "differ"
Detail ==
  IF Verdict # "differ" THEN NoDetail
  ELSE LET k == FirstDiff(ma.log, mb.log, 1) IN
       IF k # 0 /\ (k <= Len(mb.log) \/ mb.st = "done") THEN [what |-> "log", idx |-> k, a |-> At(ma.log, k), b |-> At(mb.log, k)]
       ELSE IF mb.st # "done" THEN [what |-> "status:" \o mb.st \o ":" \o mb.why, idx |-> Len(mb.log), a |-> <<>>, b |-> <<>>]
       ELSE [what |-> "ret", idx |-> FirstDiff(ma.ret, mb.ret, 1), a |-> ma.ret, b |-> mb.ret]
ReqInfo(m) == [k \in 1..Len(m.loaded) |-> [s |-> m.loaded[k].s, nret |-> m.loaded[k].nret, done |-> m.loaded[k].done]]
Line ==
  LET c == Cases[i] IN
  IF c.mode = "equiv" THEN
    [id |-> c.id, mode |-> "equiv", verdict |-> Verdict, sta |-> ma.st, stb |-> IF phase = "report" /\ ma.st = "done" THEN mb.st ELSE "notrun",
     whya |-> ma.why, whyb |-> mb.why, stepsa |-> ma.steps, stepsb |-> mb.steps,
     nloga |-> Len(ma.log), nlogb |-> Len(mb.log), nreta |-> Len(ma.ret), nretb |-> Len(mb.ret),
     metaa |-> ma.meta, metab |-> mb.meta, reqa |-> ReqInfo(ma), reqb |-> ReqInfo(mb), detail |-> Detail]
  ELSE
    [id |-> c.id, mode |-> "run", verdict |-> "run", sta |-> ma.st, why |-> ma.why, stepsa |-> ma.steps,
     nloga |-> Len(ma.log), nreta |-> Len(ma.ret), metaa |-> ma.meta, reqa |-> ReqInfo(ma), log |-> ma.log, ret |-> ma.ret]
Report == /\ phase = "report"
          /\ EmitLine("VERDICT " \o JsonOf(Line))
          /\ phase' = "done"
          /\ UNCHANGED <<i, ma, mb>>
EqNext == StepA \/ StepB \/ Report
Spec == EqInit /\ [][EqNext]_vars
=============================================================================
