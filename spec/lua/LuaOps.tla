------------------------------- MODULE LuaOps -------------------------------
(* Operator grammar of Lua 5.1 + Luau.                                                      *)
(*                                                                                          *)
(*  (1) REFERENCE side: the tree-building rule of the reference parsers -- precedence       *)
(*      climbing with the left/right priority pairs of lparser.c (`priority[]`,             *)
(*      UNARY_PRIORITY = 8; Luau's Parser.cpp `binaryPriority[]`/`unaryPriority` are the    *)
(*      same numbers, plus `//` at 7/7), Luau's parseAssertionExpr (`simpleexp [:: T]`) and  *)
(*      parseIfElseExpr (the else branch is a full `parseExpr()`: it swallows every binary  *)
(*      operator that follows).                                                             *)
(*  (2) PRINTER side: a transcription of darklua's parenthesisation                         *)
(*      (src/nodes/expressions/binary.rs: get_precedence, left_needs_parentheses,           *)
(*       right_needs_parentheses, ends_with_if_expression,                                  *)
(*       ends_with_type_cast_to_type_name_without_type_parameters;                          *)
(*       src/generator/{dense,readable,token_based}.rs: write_binary_expression,            *)
(*       write_unary_expression, write_type_cast, write_if_expression, write_parenthese;     *)
(*       src/nodes/expressions/type_cast.rs: needs_parentheses;                             *)
(*       src/generator/utils.rs write_number: a DecimalNumber with the sign bit set is       *)
(*       written `-digits`, i.e. as TWO tokens).                                            *)
(*  Theorem PrintParse: Parse(Unparse(t)) = t  (modulo grouping parentheses).               *)
(*                                                                                          *)
(*  Trees are tuples: leaf <<kind>>, one-operand node <<op, e>>, binary node <<op, l, r>>.  *)
(*  Tokens are strings.  Leaf kinds: x (name) n (number) s (string) va (...) call (f())     *)
(*  tab ({}) fn (function() end) negn (a number node whose value has the sign bit set).     *)
(*  One-operand nodes: not # u- ; ifx = `if c then a else E` ; cast = `E :: T` (T a bare    *)
(*  type name) ; par = `( E )`.                                                              *)
EXTENDS Integers, Sequences, TLC, IOUtils

BinOps == {"or","and","<",">","<=",">=","~=","==","..","+","-","*","/","//","%","^"}
UnOps  == {"not","#","u-"}
XOps   == {"ifx","cast","par"}
LeafKinds == {"x","n","s","va","call","tab","fn","negn"}
LeafToks  == LeafKinds \ {"negn"}

IsLeaf(t) == Len(t) = 1
IsBin(t)  == Len(t) = 3
IsUn(t)   == Len(t) = 2 /\ t[1] \in UnOps
IsK(t, k) == Len(t) = 2 /\ t[1] = k

\* ------------------------------------------------------------------ reference parser
LeftP(o)  == CASE o \in {"+","-"} -> 6 [] o \in {"*","/","//","%"} -> 7 [] o = "^" -> 10 [] o = ".." -> 5
               [] o \in {"==","<","<=","~=",">",">="} -> 3 [] o = "and" -> 2 [] o = "or" -> 1
RightP(o) == CASE o \in {"+","-"} -> 6 [] o \in {"*","/","//","%"} -> 7 [] o = "^" -> 9 [] o = ".." -> 4
               [] o \in {"==","<","<=","~=",">",">="} -> 3 [] o = "and" -> 2 [] o = "or" -> 1
UnaryPriority == 8

TokAt(toks, p) == IF p >= 1 /\ p <= Len(toks) THEN toks[p] ELSE "EOF"
Bad(p) == [t |-> <<"ERR">>, p |-> p, ok |-> FALSE]
Good(t, p) == [t |-> t, p |-> p, ok |-> TRUE]

RECURSIVE SubExpr(_, _, _), Loop(_, _, _), Simple(_, _)
\* simpleexp / primaryexp, then Luau's single optional type assertion
Simple(toks, p) ==
  LET k == TokAt(toks, p) IN
  LET base ==
        IF k = "(" THEN LET r == SubExpr(toks, p + 1, 0) IN
                        IF r.ok /\ TokAt(toks, r.p) = ")" THEN Good(<<"par", r.t>>, r.p + 1) ELSE Bad(r.p)
        ELSE IF k = "if" THEN LET r == SubExpr(toks, p + 1, 0) IN IF r.ok THEN Good(<<"ifx", r.t>>, r.p) ELSE r
        ELSE IF k \in LeafToks THEN Good(<<k>>, p + 1)
        ELSE Bad(p) IN
  IF base.ok /\ TokAt(toks, base.p) = "::T"
  THEN (IF TokAt(toks, base.p + 1) = "<" THEN Bad(base.p + 1)          \* `T <` starts a generic argument list
        ELSE Good(<<"cast", base.t>>, base.p + 1))
  ELSE base
SubExpr(toks, p, limit) ==
  LET k == TokAt(toks, p) IN
  LET first == IF k \in {"not", "#", "-"}
               THEN LET r == SubExpr(toks, p + 1, UnaryPriority) IN
                    IF r.ok THEN Good(<<IF k = "-" THEN "u-" ELSE k, r.t>>, r.p) ELSE r
               ELSE Simple(toks, p) IN
  IF first.ok THEN Loop(toks, first, limit) ELSE first
Loop(toks, cur, limit) ==
  LET o == TokAt(toks, cur.p) IN
  IF o \in BinOps /\ LeftP(o) > limit
  THEN LET r == SubExpr(toks, cur.p + 1, RightP(o)) IN
       IF r.ok THEN Loop(toks, Good(<<o, cur.t, r.t>>, r.p), limit) ELSE r
  ELSE cur
Parse(toks) == LET r == SubExpr(toks, 1, 0) IN IF r.ok /\ r.p = Len(toks) + 1 THEN r.t ELSE <<"ERR">>

\* ------------------------------------------------------------------ darklua's printer (transcription)
\* FLIP_LEFT=1 in the environment seeds a mutant of left_needs_parentheses (used only to demonstrate that the
\* theorem and the conformance check bind); it is unset in every real run.
FlipLeft == "FLIP_LEFT" \in DOMAIN IOEnv /\ IOEnv.FLIP_LEFT = "1"
Prec(o) == CASE o = "or" -> 0 [] o = "and" -> 1 [] o \in {"==","~=","<","<=",">",">="} -> 2 [] o = ".." -> 3
             [] o \in {"+","-"} -> 4 [] o \in {"*","/","//","%"} -> 5 [] o = "^" -> 7
Precedes(a, b) == Prec(a) > Prec(b)
RightAssoc(o) == o \in {"^", ".."}
PrecedesUnary(o) == o = "^"

RECURSIVE EndsWithIf(_), EndsWithCastName(_)
EndsWithIf(t) == IF IsK(t, "ifx") THEN TRUE
                 ELSE IF IsBin(t) THEN EndsWithIf(t[3])
                 ELSE IF IsUn(t) THEN EndsWithIf(t[2])
                 ELSE FALSE
EndsWithCastName(t) == IF IsK(t, "ifx") THEN EndsWithCastName(t[2])
                       ELSE IF IsBin(t) THEN EndsWithCastName(t[3])
                       ELSE IF IsUn(t) THEN EndsWithCastName(t[2])
                       ELSE IsK(t, "cast")
\* DEV_NEG_ATOM=1 in the environment restores the printer before the repair of F-C02-a (a number node whose value
\* has the sign bit set was treated as an atom); unset in every real run
DevNegAtom == "DEV_NEG_ATOM" \in DOMAIN IOEnv /\ IOEnv.DEV_NEG_ATOM = "1"
LeftNeedsBase(o, l) ==
  IF IsBin(l) THEN (IF ~RightAssoc(o) THEN Precedes(o, l[1]) ELSE ~Precedes(l[1], o))
  ELSE IF IsUn(l) THEN PrecedesUnary(o)
  ELSE IF l = <<"negn">> THEN ~DevNegAtom /\ PrecedesUnary(o)
  ELSE IsK(l, "ifx")
LeftNeeds(o, l) ==
  LET real == LeftNeedsBase(o, l) \/ EndsWithIf(l) \/ (o = "<" /\ EndsWithCastName(l)) IN
  IF FlipLeft /\ IsBin(l) THEN ~real ELSE real
RightNeeds(o, r) == IF IsBin(r) THEN (IF RightAssoc(o) THEN Precedes(o, r[1]) ELSE ~Precedes(r[1], o)) ELSE FALSE
CastNeeds(e) == IsBin(e) \/ IsUn(e) \/ IsK(e, "cast") \/ IsK(e, "ifx") \/ (e = <<"negn">> /\ ~DevNegAtom)

Paren(s) == <<"(">> \o s \o <<")">>
RECURSIVE Unparse(_)
Unparse(t) ==
  IF IsLeaf(t) THEN (IF t[1] = "negn" THEN <<"-", "n">> ELSE t)
  ELSE IF IsUn(t) THEN <<IF t[1] = "u-" THEN "-" ELSE t[1]>>
                       \o (IF IsBin(t[2]) /\ ~PrecedesUnary(t[2][1]) THEN Paren(Unparse(t[2])) ELSE Unparse(t[2]))
  ELSE IF IsK(t, "ifx") THEN <<"if">> \o Unparse(t[2])
  ELSE IF IsK(t, "cast") THEN (IF CastNeeds(t[2]) THEN Paren(Unparse(t[2])) ELSE Unparse(t[2])) \o <<"::T">>
  ELSE IF IsK(t, "par") THEN Paren(Unparse(t[2]))
  ELSE (IF LeftNeeds(t[1], t[2]) THEN Paren(Unparse(t[2])) ELSE Unparse(t[2])) \o <<t[1]>>
       \o (IF RightNeeds(t[1], t[3]) THEN Paren(Unparse(t[3])) ELSE Unparse(t[3]))

\* ------------------------------------------------------------------ the theorem
\* what the tree means: a number node with the sign bit set is the negation of its magnitude; grouping
\* parentheses are transparent
RECURSIVE Norm(_)
Norm(t) == IF IsLeaf(t) THEN (IF t[1] = "negn" THEN <<"u-", <<"n">>>> ELSE t)
           ELSE IF IsK(t, "par") THEN Norm(t[2])
           ELSE IF Len(t) = 2 THEN <<t[1], Norm(t[2])>>
           ELSE <<t[1], Norm(t[2]), Norm(t[3])>>
PrintParse(t) == Norm(Parse(Unparse(t))) = Norm(t)

\* REPAIRED finding F-C02-a (the predicate below describes where the old printer, DEV_NEG_ATOM=1, fails): a number node with the sign bit set is printed as the two tokens `-` `digits` but
\* treated as an atom: as the left operand of `^` (`-2^x` is -(2^x)) or as the operand of a type assertion
\* (`-2::T` is -(2::T)) the text means another tree.
RECURSIVE Trigger_F_C02_a(_)
Trigger_F_C02_a(t) ==
  IF IsLeaf(t) THEN FALSE
  ELSE IF IsBin(t) THEN (t[1] = "^" /\ t[2] = <<"negn">>) \/ Trigger_F_C02_a(t[2]) \/ Trigger_F_C02_a(t[3])
  ELSE (t[1] = "cast" /\ t[2] = <<"negn">>) \/ Trigger_F_C02_a(t[2])

\* ------------------------------------------------------------------ tree families
Grow(S, U, B) == S \cup {<<u, e>> : u \in U, e \in S} \cup {<<o, l, r>> : o \in B, l \in S, r \in S}
RECURSIVE Subst(_, _)
Subst(t, k) == IF IsLeaf(t) THEN <<k>> ELSE IF Len(t) = 2 THEN <<t[1], Subst(t[2], k)>> ELSE <<t[1], Subst(t[2], k), Subst(t[3], k)>>
=============================================================================
