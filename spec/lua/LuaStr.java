import java.math.BigDecimal;
import java.util.ArrayList;
import tlc2.value.impl.*;

public class LuaStr {
  static String str(Value v) { return ((StringValue) v).val.toString(); }
  static Value bool(boolean b) { return b ? BoolValue.ValTrue : BoolValue.ValFalse; }
  static Value sv(String s) { return new StringValue(s); }
  static Value tup(Value... vs) { return new TupleValue(vs); }

  public static Value StrLt(Value a, Value b) {
    String x = str(a), y = str(b);
    int n = Math.min(x.length(), y.length());
    for (int i = 0; i < n; i++) {
      int c = (x.charAt(i) & 0xff) - (y.charAt(i) & 0xff);
      if (c != 0) return bool(c < 0);
    }
    return bool(x.length() < y.length());
  }
  public static Value StrByte(Value s, Value i) {
    String x = str(s); int k = ((IntValue) i).val;
    if (k < 1 || k > x.length()) return IntValue.gen(-1);
    return IntValue.gen(x.charAt(k - 1) & 0xff);
  }
  public static Value StrOfBytes(Value q) {
    TupleValue t = (TupleValue) q.toTuple();
    StringBuilder sb = new StringBuilder();
    for (Value e : t.elems) sb.append((char) (((IntValue) e).val & 0xff));
    return sv(sb.toString());
  }
  public static Value StrSub(Value s, Value i, Value j) {
    String x = str(s); int a = ((IntValue) i).val, b = ((IntValue) j).val;
    if (a < 1) a = 1;
    if (b > x.length()) b = x.length();
    if (a > b) return sv("");
    return sv(x.substring(a - 1, b));
  }
  public static Value StrHasPrefix(Value s, Value p) { return bool(str(s).startsWith(str(p))); }
  public static Value IntStr(Value i) { return sv(Integer.toString(((IntValue) i).val)); }

  static boolean isSpace(char c) { return c == ' ' || (c >= 9 && c <= 13); }
  static String trim(String s) {
    int a = 0, b = s.length();
    while (a < b && isSpace(s.charAt(a))) a++;
    while (b > a && isSpace(s.charAt(b - 1))) b--;
    return s.substring(a, b);
  }
  static boolean isDigit(char c) { return c >= '0' && c <= '9'; }
  static boolean isHex(char c) { return isDigit(c) || (c >= 'a' && c <= 'f') || (c >= 'A' && c <= 'F'); }
  // strict decimal: [+-]? (d+ .? d* | . d+) ([eE] [+-]? d+)?
  static boolean isDecimal(String t) {
    int i = 0, n = t.length();
    if (i < n && (t.charAt(i) == '+' || t.charAt(i) == '-')) i++;
    int d1 = 0, d2 = 0;
    while (i < n && isDigit(t.charAt(i))) { i++; d1++; }
    if (i < n && t.charAt(i) == '.') { i++; while (i < n && isDigit(t.charAt(i))) { i++; d2++; } }
    if (d1 + d2 == 0) return false;
    if (i < n && (t.charAt(i) == 'e' || t.charAt(i) == 'E')) {
      i++;
      if (i < n && (t.charAt(i) == '+' || t.charAt(i) == '-')) i++;
      int d3 = 0;
      while (i < n && isDigit(t.charAt(i))) { i++; d3++; }
      if (d3 == 0 || d3 > 6) return false;          // huge exponents: left to StrNumUnsure
    }
    return i == n;
  }
  static boolean isHexInt(String t) {
    if (t.length() < 3 || t.length() > 10) return false;
    if (t.charAt(0) != '0' || (t.charAt(1) != 'x' && t.charAt(1) != 'X')) return false;
    for (int i = 2; i < t.length(); i++) if (!isHex(t.charAt(i))) return false;
    return true;
  }
  public static Value StrToNumber(Value s) {
    String raw = str(s);
    Value no = tup(BoolValue.ValFalse, IntValue.gen(0), IntValue.gen(0));
    if (raw.indexOf('\0') >= 0) return no;
    String t = trim(raw);
    double d;
    if (isHexInt(t)) d = (double) Long.parseLong(t.substring(2), 16);
    else if (isDecimal(t)) {
      String u = t;
      if (u.startsWith("+")) u = u.substring(1);
      if (u.endsWith(".")) u = u + "0";
      u = u.replace(".e", ".0e").replace(".E", ".0E");
      if (u.startsWith(".")) u = "0" + u;
      if (u.startsWith("-.")) u = "-0" + u.substring(1);
      try { d = new BigDecimal(u).doubleValue(); } catch (RuntimeException e) { return no; }
      if (u.startsWith("-") && d == 0) d = -0.0;
    } else return no;
    long b = Double.doubleToRawLongBits(d);
    return tup(BoolValue.ValTrue, IntValue.gen((int) (b >>> 32)), IntValue.gen((int) b));
  }
  public static Value StrNumUnsure(Value s) {
    String raw = str(s);
    if (((BoolValue) ((TupleValue) StrToNumber(s)).elems[0]).val) return bool(false);
    if (raw.indexOf('\0') >= 0) return bool(true);
    String t = trim(raw).toLowerCase();
    if (t.startsWith("+") || t.startsWith("-")) t = t.substring(1);
    if (t.startsWith("0x") || t.startsWith("inf") || t.startsWith("nan")) return bool(true);
    // decimal syntax rejected only because of a huge exponent
    int e = t.indexOf('e');
    if (e > 0) {
      String head = t.substring(0, e) + "e1";
      String tail = t.substring(e + 1);
      if (tail.startsWith("+") || tail.startsWith("-")) tail = tail.substring(1);
      boolean digits = tail.length() > 0;
      for (int i = 0; i < tail.length(); i++) digits &= isDigit(tail.charAt(i));
      if (digits && isDecimal(head)) return bool(true);
    }
    return bool(false);
  }

  // <<definite, string>>
  public static Value NumToStr(Value v) {
    double d = IEEE754.dec(v);
    if (Double.isNaN(d)) return tup(BoolValue.ValFalse, sv("nan"));
    if (Double.isInfinite(d)) return tup(BoolValue.ValTrue, sv(d > 0 ? "inf" : "-inf"));
    String g = IEEE754.fmtG(d, 14);
    if (d == Math.rint(d)) {
      if (Math.abs(d) < 1e14) return tup(BoolValue.ValTrue, sv(g));     // plain digits, "-0" for -0
      return tup(BoolValue.ValFalse, sv(g));
    }
    if (g.indexOf('e') >= 0) return tup(BoolValue.ValFalse, sv(g));     // exponent outside [-4, 13]
    // %.14g must be the shortest round-trip form
    String sh = ((StringValue) IEEE754.FFmtShortest(v)).val.toString();  // [-]digits e X
    String shDigits = sh.substring(0, sh.indexOf('e')).replace("-", "");
    String gDigits = g.replace("-", "").replace(".", "").replaceAll("^0+", "").replaceAll("0+$", "");
    boolean ok = shDigits.length() <= 14 && shDigits.equals(gDigits) && Double.parseDouble(g) == d;
    return tup(bool(ok), sv(g));
  }

  // string.format directives: only %s %d %% are recognised, everything else is "bad"
  public static Value FmtParse(Value s) {
    String f = str(s);
    ArrayList<Value> out = new ArrayList<>();
    StringBuilder lit = new StringBuilder();
    for (int i = 0; i < f.length(); i++) {
      char c = f.charAt(i);
      if (c != '%') { lit.append(c); continue; }
      i++;
      if (i >= f.length()) { out.add(tup(sv("bad"), sv(""))); break; }
      char k = f.charAt(i);
      if (k == '%') { lit.append('%'); continue; }
      if (lit.length() > 0) { out.add(tup(sv("lit"), sv(lit.toString()))); lit.setLength(0); }
      if (k == 's') out.add(tup(sv("s"), sv("")));
      else if (k == 'd') out.add(tup(sv("d"), sv("")));
      else out.add(tup(sv("bad"), sv("")));
    }
    if (lit.length() > 0) out.add(tup(sv("lit"), sv(lit.toString())));
    return new TupleValue(out.toArray(new Value[0]));
  }

  public static Value SeqIndexOf(Value q, Value x) {
    TupleValue t = (TupleValue) q.toTuple();
    for (int i = 0; i < t.elems.length; i++) if (t.elems[i].equals(x)) return IntValue.gen(i + 1);
    return IntValue.gen(0);
  }
  // ---- output helpers
  static void json(Value v, StringBuilder sb) {
    if (v instanceof StringValue) {
      String x = ((StringValue) v).val.toString();
      sb.append('"');
      for (int i = 0; i < x.length(); i++) {
        char c = x.charAt(i);
        if (c < 0x20 || c > 0x7e || c == '"' || c == '\\') sb.append(String.format("\\u%04x", (int) c));
        else sb.append(c);
      }
      sb.append('"');
    } else if (v instanceof IntValue) sb.append(((IntValue) v).val);
    else if (v instanceof BoolValue) sb.append(((BoolValue) v).val ? "true" : "false");
    else if (v instanceof RecordValue) {
      RecordValue r = (RecordValue) v;
      sb.append('{');
      for (int i = 0; i < r.names.length; i++) {
        if (i > 0) sb.append(',');
        sb.append('"').append(r.names[i].toString()).append("\":");
        json(r.values[i], sb);
      }
      sb.append('}');
    } else {
      Value t = v.toTuple();
      if (t != null) {
        TupleValue tv = (TupleValue) t;
        sb.append('[');
        for (int i = 0; i < tv.elems.length; i++) { if (i > 0) sb.append(','); json(tv.elems[i], sb); }
        sb.append(']');
      } else {
        Value r = v.toRcd();
        if (r != null) json(r, sb); else json(new StringValue(v.toString()), sb);
      }
    }
  }
  public static Value JsonOf(Value v) { StringBuilder sb = new StringBuilder(); json(v, sb); return sv(sb.toString()); }
  public static synchronized Value EmitLine(Value s) {
    util.ToolIO.out.println(str(s));
    return BoolValue.ValTrue;
  }
}
