------------------------------- MODULE LuaLex -------------------------------
(* Scratch prototype: maximal-munch lexer of Lua 5.1 + Luau over byte sequences.            *)
(* Lex(b) = [ok |-> BOOLEAN, toks |-> Seq([k, v])]; k \in {"name","kw","num","str","sym","comment"};  *)
(* v = the bytes of the lexeme, except for "str" where v = the DECODED value.                 *)
EXTENDS Integers, Sequences, TLC

IsDigit(c)  == c >= 48 /\ c <= 57
IsAlpha(c)  == (c >= 65 /\ c <= 90) \/ (c >= 97 /\ c <= 122) \/ c = 95
IsAlnum(c)  == IsAlpha(c) \/ IsDigit(c)
IsHex(c)    == IsDigit(c) \/ (c >= 65 /\ c <= 70) \/ (c >= 97 /\ c <= 102)
HexVal(c)   == IF IsDigit(c) THEN c - 48 ELSE IF c >= 97 THEN c - 87 ELSE c - 55
IsSpace(c)  == c \in {32, 9, 10, 13, 11, 12}
At(b, p)    == IF p >= 1 /\ p <= Len(b) THEN b[p] ELSE -1
Keywords == { <<97,110,100>>, <<98,114,101,97,107>>, <<100,111>>, <<101,108,115,101>>, <<101,108,115,101,105,102>>, <<101,110,100>>,
              <<102,97,108,115,101>>, <<102,111,114>>, <<102,117,110,99,116,105,111,110>>, <<105,102>>, <<105,110>>, <<108,111,99,97,108>>,
              <<110,105,108>>, <<110,111,116>>, <<111,114>>, <<114,101,112,101,97,116>>, <<114,101,116,117,114,110>>, <<116,104,101,110>>,
              <<116,114,117,101>>, <<117,110,116,105,108>>, <<119,104,105,108,101>> }

\* ---- long brackets: level of an opening `[=*[` at p, or -1
RECURSIVE CountEq(_, _)
CountEq(b, p) == IF At(b, p) = 61 THEN 1 + CountEq(b, p + 1) ELSE 0
LongOpen(b, p) == IF At(b, p) = 91 /\ At(b, p + 1 + CountEq(b, p + 1)) = 91 THEN CountEq(b, p + 1) ELSE -1
\* position of the first byte of the closing `]=*]` of that level at or after p, or 0
RECURSIVE FindClose(_, _, _)
FindClose(b, p, lvl) == IF p > Len(b) THEN 0
                        ELSE IF b[p] = 93 /\ CountEq(b, p + 1) = lvl /\ At(b, p + 1 + lvl) = 93 THEN p
                        ELSE FindClose(b, p + 1, lvl)
\* a long string/comment body skips a first newline (\n, \r, \r\n, \n\r)
SkipFirstNl(b, p) == IF At(b, p) = 13 /\ At(b, p + 1) = 10 THEN p + 2 ELSE IF At(b, p) = 10 /\ At(b, p + 1) = 13 THEN p + 2
                     ELSE IF At(b, p) \in {10, 13} THEN p + 1 ELSE p

Utf8(cp) == IF cp < 128 THEN <<cp>>
            ELSE IF cp < 2048 THEN <<192 + (cp \div 64), 128 + (cp % 64)>>
            ELSE IF cp < 65536 THEN <<224 + (cp \div 4096), 128 + ((cp \div 64) % 64), 128 + (cp % 64)>>
            ELSE <<240 + (cp \div 262144), 128 + ((cp \div 4096) % 64), 128 + ((cp \div 64) % 64), 128 + (cp % 64)>>
\* ---- short strings: returns [ok, val, next]
RECURSIVE ShortStr(_, _, _, _, _)
ShortStr(b, p, q, acc, luau) ==
  LET c == At(b, p) IN
  IF c = -1 \/ c = 10 \/ c = 13 THEN [ok |-> FALSE, val |-> acc, next |-> p]
  ELSE IF c = q THEN [ok |-> TRUE, val |-> acc, next |-> p + 1]
  ELSE IF c # 92 THEN ShortStr(b, p + 1, q, Append(acc, c), luau)
  ELSE LET e == At(b, p + 1) IN
       IF e = 110 THEN ShortStr(b, p + 2, q, Append(acc, 10), luau)
       ELSE IF e = 116 THEN ShortStr(b, p + 2, q, Append(acc, 9), luau)
       ELSE IF e = 114 THEN ShortStr(b, p + 2, q, Append(acc, 13), luau)
       ELSE IF e = 97 THEN ShortStr(b, p + 2, q, Append(acc, 7), luau)
       ELSE IF e = 98 THEN ShortStr(b, p + 2, q, Append(acc, 8), luau)
       ELSE IF e = 118 THEN ShortStr(b, p + 2, q, Append(acc, 11), luau)
       ELSE IF e = 102 THEN ShortStr(b, p + 2, q, Append(acc, 12), luau)
       ELSE IF e \in {92, 34, 39} THEN ShortStr(b, p + 2, q, Append(acc, e), luau)
       ELSE IF e = 10 \/ e = 13 THEN ShortStr(b, (IF At(b, p + 2) \in {10, 13} /\ At(b, p + 2) # e THEN p + 3 ELSE p + 2), q, Append(acc, 10), luau)
       ELSE IF IsDigit(e) THEN
            LET n == IF IsDigit(At(b, p + 2)) THEN (IF IsDigit(At(b, p + 3)) THEN 3 ELSE 2) ELSE 1 IN
            LET v == IF n = 1 THEN e - 48 ELSE IF n = 2 THEN (e - 48) * 10 + (b[p + 2] - 48) ELSE (e - 48) * 100 + (b[p + 2] - 48) * 10 + (b[p + 3] - 48) IN
            IF v > 255 THEN [ok |-> FALSE, val |-> acc, next |-> p] ELSE ShortStr(b, p + 1 + n, q, Append(acc, v), luau)
       ELSE IF luau /\ e = 120 /\ IsHex(At(b, p + 2)) /\ IsHex(At(b, p + 3))
            THEN ShortStr(b, p + 4, q, Append(acc, HexVal(b[p + 2]) * 16 + HexVal(b[p + 3])), luau)
       ELSE IF luau /\ e = 122 THEN LET F[i \in p + 2..Len(b) + 1] == IF IsSpace(At(b, i)) THEN F[i + 1] ELSE i IN ShortStr(b, F[p + 2], q, acc, luau)
       ELSE IF luau /\ e = 117 /\ At(b, p + 2) = 123 THEN
            LET H[i \in p + 3..Len(b) + 1, v \in 0..1114111] == IF IsHex(At(b, i)) /\ v * 16 + HexVal(b[i]) <= 1114111 THEN H[i + 1, v * 16 + HexVal(b[i])] ELSE <<i, v>> IN
            LET r == H[p + 3, 0] IN LET cp == r[2] IN
            IF At(b, r[1]) # 125 \/ r[1] = p + 3 THEN [ok |-> FALSE, val |-> acc, next |-> p]
            ELSE ShortStr(b, r[1] + 1, q,
                   acc \o Utf8(cp), luau)
       ELSE [ok |-> FALSE, val |-> acc, next |-> p]

\* ---- numerals: the maximal run the reference lexers consume, then a validity check of its shape
RECURSIVE RunWhile(_, _, _)
RunWhile(b, p, kind) == LET c == At(b, p) IN
  IF (kind = "mant" /\ (IsDigit(c) \/ c = 46 \/ c = 95)) \/ (kind = "alnum" /\ (IsAlnum(c))) THEN RunWhile(b, p + 1, kind) ELSE p
NumEnd(b, p) ==
  LET a == RunWhile(b, p, "mant") IN
  LET e == IF At(b, a) \in {101, 69} /\ ~(At(b, p) = 48 /\ At(b, p + 1) \in {120, 88, 98, 66})
           THEN (IF At(b, a + 1) \in {43, 45} THEN a + 2 ELSE a + 1) ELSE a IN
  RunWhile(b, e, "alnum")
RECURSIVE AllIn(_, _, _, _)
AllIn(b, p, q, S) == p > q \/ (b[p] \in S /\ AllIn(b, p + 1, q, S))
Digits == 48..57
RECURSIVE CountByte(_, _, _, _)
CountByte(b, p, q, c) == IF p > q THEN 0 ELSE (IF b[p] = c THEN 1 ELSE 0) + CountByte(b, p + 1, q, c)
\* well-formed numeral (Luau superset): decimal with at most one dot and optional exponent, 0x hex, 0b binary; `_` allowed
ValidNum(b, p, q) ==
  IF At(b, p) = 48 /\ At(b, p + 1) \in {120, 88} THEN q >= p + 2 /\ AllIn(b, p + 2, q, {c \in 0..255 : IsHex(c) \/ c = 95})
  ELSE IF At(b, p) = 48 /\ At(b, p + 1) \in {98, 66} THEN q >= p + 2 /\ AllIn(b, p + 2, q, {48, 49, 95})
  ELSE LET E[i \in p..q + 1] == IF i > q THEN 0 ELSE IF b[i] \in {101, 69} THEN i ELSE E[i + 1] IN
       LET ep == E[p] IN
       LET mEnd == IF ep = 0 THEN q ELSE ep - 1 IN
       /\ AllIn(b, p, mEnd, Digits \cup {46, 95}) /\ CountByte(b, p, mEnd, 46) <= 1 /\ \E i \in p..mEnd : IsDigit(b[i])
       /\ (ep = 0 \/ (LET s == IF At(b, ep + 1) \in {43, 45} THEN ep + 2 ELSE ep + 1 IN s <= q /\ AllIn(b, s, q, Digits \cup {95}) /\ \E i \in s..q : IsDigit(b[i])))

\* ---- symbols, longest first
Sym3 == { <<46,46,46>>, <<46,46,61>>, <<47,47,61>> }
Sym2 == { <<46,46>>, <<61,61>>, <<126,61>>, <<60,61>>, <<62,61>>, <<58,58>>, <<45,62>>, <<47,47>>, <<43,61>>, <<45,61>>, <<42,61>>, <<47,61>>, <<37,61>>, <<94,61>> }
Sym1 == { 43,45,42,47,37,94,35,60,62,61,40,41,123,125,91,93,59,58,44,46,63,38,124,64 }

\* ---- Luau interpolated strings: `lit{expr}lit`.  A literal part ends at an unescaped `{` (kind "brace") or at the
\* closing backtick (kind "end"); it may not contain a raw newline.  Tokens: [k |-> "interp", v |-> raw bytes of the
\* literal part including its delimiters].  ist = stack of open-brace counters, one per interpolated string being lexed.
RECURSIVE InterpLit(_, _)
InterpLit(b, p) ==
  LET c == At(b, p) IN
  IF c = -1 \/ c = 10 \/ c = 13 THEN [ok |-> FALSE, next |-> p, kind |-> "bad"]
  ELSE IF c = 92 THEN
       IF At(b, p + 1) = 122 THEN LET F[i \in p + 2..Len(b) + 1] == IF IsSpace(At(b, i)) THEN F[i + 1] ELSE i IN InterpLit(b, F[p + 2])
       ELSE IF At(b, p + 1) = 13 /\ At(b, p + 2) = 10 THEN InterpLit(b, p + 3)
       ELSE IF At(b, p + 1) = -1 THEN [ok |-> FALSE, next |-> p, kind |-> "bad"]
       ELSE InterpLit(b, p + 2)
  ELSE IF c = 123 THEN IF At(b, p + 1) = 123 THEN [ok |-> FALSE, next |-> p, kind |-> "bad"] ELSE [ok |-> TRUE, next |-> p + 1, kind |-> "brace"]
  ELSE IF c = 96 THEN [ok |-> TRUE, next |-> p + 1, kind |-> "end"]
  ELSE InterpLit(b, p + 1)

\* line breaks inside a long string: Lua 5.1 reads CR, CR LF, LF CR and LF as one LF; Luau (Lexer::fixupMultilineString) reads
\* CR LF and LF as LF and keeps a standalone CR
RECURSIVE NormNlFrom(_, _, _, _)
NormNlFrom(b, p, acc, luau) ==
  IF p > Len(b) THEN acc
  ELSE IF b[p] = 13 THEN
       IF p < Len(b) /\ b[p + 1] = 10 THEN NormNlFrom(b, p + 2, Append(acc, 10), luau)
       ELSE NormNlFrom(b, p + 1, Append(acc, IF luau THEN 13 ELSE 10), luau)
  ELSE IF b[p] = 10 /\ ~luau /\ p < Len(b) /\ b[p + 1] = 13 THEN NormNlFrom(b, p + 2, Append(acc, 10), luau)
  ELSE NormNlFrom(b, p + 1, Append(acc, b[p]), luau)
NormNl(b, luau) == IF \E k \in 1..Len(b) : b[k] = 13 THEN NormNlFrom(b, 1, <<>>, luau) ELSE b

RECURSIVE LexFrom(_, _, _, _, _)
LexFrom(b, p, acc, luau, ist) ==
  LET c == At(b, p) IN
  IF c = -1 THEN [ok |-> ist = <<>>, toks |-> acc]
  ELSE IF IsSpace(c) THEN LexFrom(b, p + 1, acc, luau, ist)
  ELSE IF c = 45 /\ At(b, p + 1) = 45 THEN                                       \* comment
       LET lvl == LongOpen(b, p + 2) IN
       IF lvl >= 0 THEN LET cl == FindClose(b, p + 4 + lvl, lvl) IN
            IF cl = 0 THEN [ok |-> FALSE, toks |-> acc]
            ELSE LexFrom(b, cl + 2 + lvl, Append(acc, [k |-> "comment", v |-> SubSeq(b, p, cl + 1 + lvl), p |-> p]), luau, ist)
       ELSE LET E[i \in p..Len(b) + 1] == IF i > Len(b) \/ b[i] \in {10, 13} THEN i ELSE E[i + 1] IN
            LexFrom(b, E[p], Append(acc, [k |-> "comment", v |-> SubSeq(b, p, E[p] - 1), p |-> p]), luau, ist)
  ELSE IF c = 91 /\ LongOpen(b, p) >= 0 THEN                                      \* long string
       LET lvl == LongOpen(b, p) IN LET s == SkipFirstNl(b, p + 2 + lvl) IN LET cl == FindClose(b, s, lvl) IN
       IF cl = 0 THEN [ok |-> FALSE, toks |-> acc]
       ELSE LexFrom(b, cl + 2 + lvl, Append(acc, [k |-> "str", v |-> NormNl(SubSeq(b, s, cl - 1), luau), p |-> p]), luau, ist)
  ELSE IF c \in {34, 39} THEN
       LET r == ShortStr(b, p + 1, c, <<>>, luau) IN
       IF ~r.ok THEN [ok |-> FALSE, toks |-> acc] ELSE LexFrom(b, r.next, Append(acc, [k |-> "str", v |-> r.val, p |-> p]), luau, ist)
  ELSE IF IsAlpha(c) THEN
       LET e == RunWhile(b, p, "alnum") IN LET w == SubSeq(b, p, e - 1) IN
       LexFrom(b, e, Append(acc, [k |-> IF w \in Keywords THEN "kw" ELSE "name", v |-> w, p |-> p]), luau, ist)
  ELSE IF IsDigit(c) \/ (c = 46 /\ IsDigit(At(b, p + 1))) THEN
       LET e == NumEnd(b, p) IN
       IF ~ValidNum(b, p, e - 1) THEN [ok |-> FALSE, toks |-> acc]
       ELSE LexFrom(b, e, Append(acc, [k |-> "num", v |-> SubSeq(b, p, e - 1), p |-> p]), luau, ist)
  ELSE IF p + 2 <= Len(b) /\ SubSeq(b, p, p + 2) \in Sym3 /\ (luau \/ SubSeq(b, p, p + 2) = <<46,46,46>>)
       THEN LexFrom(b, p + 3, Append(acc, [k |-> "sym", v |-> SubSeq(b, p, p + 2), p |-> p]), luau, ist)
  ELSE IF p + 1 <= Len(b) /\ SubSeq(b, p, p + 1) \in Sym2 /\ (luau \/ SubSeq(b, p, p + 1) \in {<<46,46>>, <<61,61>>, <<126,61>>, <<60,61>>, <<62,61>>})
       THEN LexFrom(b, p + 2, Append(acc, [k |-> "sym", v |-> SubSeq(b, p, p + 1), p |-> p]), luau, ist)
  ELSE IF luau /\ c = 96 THEN                                                        \* start of an interpolated string
       LET r == InterpLit(b, p + 1) IN
       IF ~r.ok THEN [ok |-> FALSE, toks |-> acc]
       ELSE LexFrom(b, r.next, Append(acc, [k |-> "interp", v |-> SubSeq(b, p, r.next - 1), p |-> p]), luau,
                    IF r.kind = "brace" THEN Append(ist, 0) ELSE ist)
  ELSE IF c = 123 /\ ist # <<>> THEN
       LexFrom(b, p + 1, Append(acc, [k |-> "sym", v |-> <<c>>, p |-> p]), luau, [ist EXCEPT ![Len(ist)] = @ + 1])
  ELSE IF c = 125 /\ ist # <<>> /\ ist[Len(ist)] > 0 THEN
       LexFrom(b, p + 1, Append(acc, [k |-> "sym", v |-> <<c>>, p |-> p]), luau, [ist EXCEPT ![Len(ist)] = @ - 1])
  ELSE IF c = 125 /\ ist # <<>> THEN                                                 \* `}` resumes the literal part
       LET r == InterpLit(b, p + 1) IN
       IF ~r.ok THEN [ok |-> FALSE, toks |-> acc]
       ELSE LexFrom(b, r.next, Append(acc, [k |-> "interp", v |-> SubSeq(b, p, r.next - 1), p |-> p]), luau,
                    IF r.kind = "brace" THEN ist ELSE SubSeq(ist, 1, Len(ist) - 1))
  ELSE IF c \in Sym1 THEN LexFrom(b, p + 1, Append(acc, [k |-> "sym", v |-> <<c>>, p |-> p]), luau, ist)
  ELSE [ok |-> FALSE, toks |-> acc]

Lex(b, luau) == LexFrom(b, 1, <<>>, luau, <<>>)
Code(r) == SelectSeq(r.toks, LAMBDA t : t.k # "comment")
=============================================================================
