#!/usr/bin/env python3
"""Runs LuaEquiv (mode "run") on litmus/cases.ndjson and compares every VERDICT line with expect.json.
Exit 0 when every program gives the expected status / log / return values, 1 otherwise, 2 on tool errors."""
import json, os, re, shutil, struct, subprocess, sys, tempfile, time

HERE = os.path.dirname(os.path.abspath(__file__))
SPEC = os.path.dirname(HERE)
CP = "/opt/veriftools/tla/tla2tools.jar:/opt/veriftools/tla/CommunityModules-deps.jar:" + SPEC


def run_tlc(cases, workers=8, timeout=600):
    meta = tempfile.mkdtemp(prefix="luasem-litmus-", dir="/tmp")
    env = dict(os.environ, CASES=os.path.abspath(cases))
    cmd = ["timeout", str(timeout), "java", "-XX:+UseParallelGC", "-Xss64m", "-cp", CP, "tlc2.TLC", "-workers", str(workers),
           "-metadir", meta, "-cleanup", "-noGenerateSpecTE", "-config", "LuaEquiv.cfg", "LuaEquiv.tla"]
    t0 = time.time()
    try:
        p = subprocess.run(cmd, cwd=SPEC, env=env, capture_output=True)
    finally:
        shutil.rmtree(meta, ignore_errors=True)
    out = p.stdout.decode("latin-1")
    return p.returncode, out, time.time() - t0


def num(hi, lo):
    bits = ((hi & 0xffffffff) << 32) | (lo & 0xffffffff)
    x = struct.unpack(">d", struct.pack(">Q", bits))[0]
    if x != x:
        return "nan"
    if x in (float("inf"), float("-inf")):
        return "inf" if x > 0 else "-inf"
    if x == int(x) and abs(x) < 1e15:
        return ("-0" if bits >> 63 else "0") if x == 0 else str(int(x))
    return repr(x)


def quote(s):
    out = ['"']
    for ch in s:
        o = ord(ch)
        if ch in '"\\':
            out.append("\\" + ch)
        elif o < 0x20 or o > 0x7e:
            out.append("\\x%02x" % o)
        else:
            out.append(ch)
    return "".join(out) + '"'


def val(r):
    t = r["t"]
    if t == "nil":
        return "nil"
    if t == "bool":
        return "true" if r["hi"] == 1 else "false"
    if t == "num":
        return num(r["hi"], r["lo"])
    if t == "str":
        return quote(r["s"])
    if t == "fn":
        return "fn"
    if t == "tab":
        if r["s"] == "...":
            return "{...}"
        return "{" + ", ".join("%s=%s" % (val(kv[0]), val(kv[1])) for kv in r["sh"]) + "}"
    return "?" + t


def render_log(log):
    return "; ".join("%s(%s)" % (e["f"], ", ".join(val(a) for a in e["a"])) for e in log)


def render_ret(ret):
    return ", ".join(val(v) for v in ret)


def norm(s):
    return re.sub(r"\s+", "", s)


def verdicts(out):
    res = {}
    for line in out.split("\n"):
        if line.startswith("VERDICT "):
            v = json.loads(line[8:])
            res[v["id"]] = v
    return res


def main():
    import argparse
    ap = argparse.ArgumentParser()
    ap.add_argument("--cases", default=os.path.join(HERE, "cases.ndjson"))
    ap.add_argument("--expect", default=os.path.join(HERE, "expect.json"))
    ap.add_argument("--workers", type=int, default=8)
    ap.add_argument("-v", action="store_true")
    a = ap.parse_args()
    expect = json.load(open(a.expect))
    rc, out, secs = run_tlc(a.cases, a.workers)
    vs = verdicts(out)
    if rc != 0 or len(vs) != len(expect):
        sys.stderr.write(out[-4000:])
        sys.stderr.write("\nTOOL ERROR: tlc exit %d, %d verdicts for %d cases\n" % (rc, len(vs), len(expect)))
        bad = sorted(set(expect) - set(vs))
        sys.stderr.write("missing: %s\n" % bad[:20])
        if not vs:
            sys.exit(2)
    fails = 0
    for name in sorted(expect):
        e, v = expect[name], vs.get(name)
        if v is None:
            print("FAIL %-40s no verdict" % name)
            fails += 1
            continue
        got_log, got_ret = render_log(v["log"]), render_ret(v["ret"])
        ok = v["sta"] == e["st"]
        if e["log"] is not None:
            ok = ok and norm(e["log"]) == norm(got_log)
        if e["ret"] is not None:
            ok = ok and norm(e["ret"]) == norm(got_ret)
        if not ok:
            fails += 1
            print("FAIL %-40s expected %s | log: %s | ret: %s" % (name, e["st"], e["log"], e["ret"]))
            print("     %-40s got      %s (%s) | log: %s | ret: %s" % ("", v["sta"], v["why"], got_log, got_ret))
        elif a.v:
            print("ok   %-40s %s (%s) steps=%d | log: %s | ret: %s" % (name, v["sta"], v["why"], v["stepsa"], got_log, got_ret))
    steps = sum(v["stepsa"] for v in vs.values())
    print("litmus: %d programs, %d passed, %d failed; %d machine steps; TLC wall %.1fs" % (len(expect), len(expect) - fails, fails, steps, secs))
    sys.exit(1 if fails or rc != 0 else 0)


if __name__ == "__main__":
    main()
