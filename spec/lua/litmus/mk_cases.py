#!/usr/bin/env python3
"""Splits litmus.lua.txt into programs, parses each one into a node table and writes
   cases.ndjson  (one LuaEquiv case per line, mode "run")  and  expect.json.

Parser: the independent Rust parser /verif/harness/luaparse/target/{release,debug}/luaparse when it
exists (or --parser PATH), else the fallback luaparse_py.py next to this script (--parser py forces it).

Litmus file format, one entry per program:
    -- name: <identifier>
    -- expect: <status> [| log: <entry>; <entry> ...] [| ret: <v>, <v> ...]
    [-- env: assert=identity profile=noop gname=X gval=<scalar>]
    [-- module: <require string>[|<alias>...]   (module source follows; repeatable; aliases are further
                                                require strings denoting the same module)
     ...
     -- main:]
    <program text up to the next "-- name:" line>
Modules are parsed separately and appended to the node table of the main program (ids shifted);
the case's "req" list maps each require string to the root block of its module.
"""
import json, os, re, subprocess, sys, tempfile

HERE = os.path.dirname(os.path.abspath(__file__))
sys.path.insert(0, HERE)
import luaparse_py

RUST = ["/verif/harness/luaparse/target/release/luaparse", "/verif/harness/luaparse/target/debug/luaparse"]


def find_parser(arg):
    if arg == "py":
        return None
    if arg:
        return arg
    for p in RUST:
        if os.path.isfile(p) and os.access(p, os.X_OK):
            return p
    return None


def parse_program(text, parser):
    if parser is None:
        return luaparse_py.parse(text)
    with tempfile.NamedTemporaryFile("wb", suffix=".lua", delete=False) as f:
        f.write(text.encode("latin-1"))
        path = f.name
    try:
        out = subprocess.run([parser, path], capture_output=True, timeout=30)
        if out.returncode != 0:
            raise RuntimeError("luaparse failed: " + out.stderr.decode("utf-8", "replace"))
        return json.loads(out.stdout.decode("utf-8"))
    finally:
        os.unlink(path)


def split_litmus(path):
    entries, cur = [], None
    for line in open(path, "rb").read().decode("latin-1").split("\n"):
        m = re.match(r"^-- name:\s*(\S+)\s*$", line)
        if m:
            cur = {"name": m.group(1), "expect": None, "env": "", "src": [], "mods": []}
            cur["target"] = cur["src"]
            entries.append(cur)
            continue
        if cur is None:
            continue
        m = re.match(r"^-- expect:\s*(.*)$", line)
        if m and cur["expect"] is None:
            cur["expect"] = m.group(1).strip()
            continue
        m = re.match(r"^-- env:\s*(.*)$", line)
        if m:
            cur["env"] = m.group(1).strip()
            continue
        m = re.match(r"^-- module:\s*(\S+)\s*$", line)
        if m:
            cur["mods"].append({"s": m.group(1), "src": []})
            cur["target"] = cur["mods"][-1]["src"]
            continue
        if re.match(r"^-- main:\s*$", line):
            cur["target"] = cur["src"]
            continue
        cur["target"].append(line)
    return entries


ID_C_KINDS = ("if", "ifexp")


def merge_module(prog, mod):
    """Appends the node table of `mod` to `prog`; returns the shifted root id of the module."""
    off = len(prog["nodes"])
    for n in mod["nodes"]:
        n = dict(n)
        for f in ("a", "b"):
            if n[f]:
                n[f] += off
        if n["k"] in ID_C_KINDS and n["c"]:
            n["c"] += off
        n["l"] = [x + off for x in n["l"]]
        n["m"] = [x + off for x in n["m"]]
        prog["nodes"].append(n)
    return mod["root"] + off


def dbl_words(x):
    import struct
    bits = struct.unpack(">q", struct.pack(">d", float(x)))[0]
    hi, lo = (bits >> 32) & 0xffffffff, bits & 0xffffffff
    return (hi - (1 << 32) if hi >= 1 << 31 else hi), (lo - (1 << 32) if lo >= 1 << 31 else lo)


def env_record(spec):
    env = {"assert": "real", "profile": "real", "gname": "", "gval": {"t": "nil", "hi": 0, "lo": 0, "s": "", "b": 0}, "gset": 0}
    for kv in spec.split():
        k, v = kv.split("=", 1)
        if k in ("assert", "profile"):
            env[k] = v
        elif k == "gname":
            env["gname"], env["gset"] = v, 1
        elif k == "gval":
            g = env["gval"]
            if v in ("true", "false"):
                g["t"], g["b"] = "bool", int(v == "true")
            elif v == "nil":
                g["t"] = "nil"
            elif re.match(r"^-?[0-9.]+$", v):
                g["t"] = "num"
                g["hi"], g["lo"] = dbl_words(v)
            else:
                g["t"], g["s"] = "str", v
    return env


def parse_expect(s):
    parts = [p.strip() for p in s.split("|")]
    e = {"st": parts[0], "log": None, "ret": None}
    if e["st"] == "done":
        e["log"], e["ret"] = "", ""
    for p in parts[1:]:
        if p.startswith("log:"):
            e["log"] = p[4:].strip()
        elif p.startswith("ret:"):
            e["ret"] = p[4:].strip()
        else:
            raise ValueError("bad expect part: " + p)
    return e


def main():
    import argparse
    ap = argparse.ArgumentParser()
    ap.add_argument("--parser", default="")
    ap.add_argument("--litmus", default=os.path.join(HERE, "litmus.lua.txt"))
    ap.add_argument("--out", default=os.path.join(HERE, "cases.ndjson"))
    ap.add_argument("--expect", default=os.path.join(HERE, "expect.json"))
    a = ap.parse_args()
    parser = find_parser(a.parser)
    sys.stderr.write("parser: %s\n" % (parser or "luaparse_py (fallback)"))
    entries = split_litmus(a.litmus)
    names = set()
    expect = {}
    with open(a.out, "w") as out:
        for e in entries:
            if e["name"] in names:
                raise SystemExit("duplicate litmus name " + e["name"])
            names.add(e["name"])
            if e["expect"] is None:
                raise SystemExit("missing expect for " + e["name"])
            try:
                prog = parse_program("\n".join(e["src"]), parser)
            except Exception as ex:
                raise SystemExit("parse error in %s: %s" % (e["name"], ex))
            prog["req"] = []
            for md in e["mods"]:
                try:
                    mp = parse_program("\n".join(md["src"]), parser)
                except Exception as ex:
                    raise SystemExit("parse error in module %s of %s: %s" % (md["s"], e["name"], ex))
                root = merge_module(prog, mp)
                for alias in md["s"].split("|"):      # `-- module: ./a|./x/../a`: several spellings, one module
                    prog["req"].append({"s": alias, "root": root})
            case = {"id": e["name"], "mode": "run", "a": prog, "enva": env_record(e["env"])}
            out.write(json.dumps(case, ensure_ascii=True, separators=(",", ":")) + "\n")
            expect[e["name"]] = parse_expect(e["expect"])
    json.dump(expect, open(a.expect, "w"), indent=0, sort_keys=True)
    sys.stderr.write("%d cases -> %s\n" % (len(entries), a.out))


if __name__ == "__main__":
    main()
