#!/usr/bin/env python3
"""Fallback Lua 5.1 / Luau-subset parser producing the flat node table of NODEFORMAT.md.

Used by mk_cases.py when the independent Rust parser (/verif/harness/luaparse) is not
available, and to cross-check it when it is.  Usage: luaparse_py.py file.lua  (prints JSON)
"""
import json, struct, sys

KEYWORDS = {"and", "break", "do", "else", "elseif", "end", "false", "for", "function", "if", "in", "local",
            "nil", "not", "or", "repeat", "return", "then", "true", "until", "while"}


class ParseError(Exception):
    pass


def lex(src):
    """src: str whose chars are bytes (latin-1). Returns list of (kind, value)."""
    toks = []
    i, n = 0, len(src)

    def long_bracket(j):
        # src[j] == '[' ; returns level or -1
        k = j + 1
        while k < n and src[k] == '=':
            k += 1
        if k < n and src[k] == '[':
            return k - j - 1
        return -1

    def read_long(j, level):
        # j at first '[', returns (string, next index)
        start = j + level + 2
        if start < n and src[start] == '\r':
            start += 1
            if start < n and src[start] == '\n':
                start += 1
        elif start < n and src[start] == '\n':
            start += 1
        close = ']' + '=' * level + ']'
        e = src.find(close, start)
        if e < 0:
            raise ParseError("unfinished long bracket")
        return src[start:e], e + len(close)

    def read_escape(j, q):
        # src[j] == '\\'; returns (bytes-string, next index)
        c = src[j + 1] if j + 1 < n else ''
        simple = {'n': '\n', 't': '\t', 'r': '\r', 'a': '\a', 'b': '\b', 'f': '\f', 'v': '\v', '\\': '\\',
                  '"': '"', "'": "'", '`': '`', '{': '{', '\n': '\n'}
        if c in simple:
            return simple[c], j + 2
        if c == 'x':
            return chr(int(src[j + 2:j + 4], 16)), j + 4
        if c == 'z':
            k = j + 2
            while k < n and src[k] in ' \t\r\n\f\v':
                k += 1
            return '', k
        if c == 'u':
            e = src.index('}', j)
            cp = int(src[j + 3:e], 16)
            return chr(cp).encode('utf-8').decode('latin-1'), e + 1
        if c.isdigit():
            k = j + 1
            while k < n and k < j + 4 and src[k].isdigit():
                k += 1
            return chr(int(src[j + 1:k])), k
        raise ParseError("bad escape \\" + c)

    def read_interp(j):
        # src[j] == '`'; returns (segments, next): segments = list of ('s', str) | ('e', tokens)
        segs, buf = [], []
        j += 1
        while True:
            if j >= n:
                raise ParseError("unfinished interpolated string")
            c = src[j]
            if c == '`':
                segs.append(('s', ''.join(buf)))
                return segs, j + 1
            if c == '\\':
                s, j = read_escape(j, '`')
                buf.append(s)
            elif c == '{':
                segs.append(('s', ''.join(buf)))
                buf = []
                depth, k = 1, j + 1
                while k < n and depth > 0:
                    if src[k] == '{':
                        depth += 1
                    elif src[k] == '}':
                        depth -= 1
                    elif src[k] in '"\'':
                        q = src[k]
                        k += 1
                        while src[k] != q:
                            k += 2 if src[k] == '\\' else 1
                    k += 1
                segs.append(('e', lex(src[j + 1:k - 1])))
                j = k
            else:
                buf.append(c)
                j += 1

    while i < n:
        c = src[i]
        if c in ' \t\r\n\f\v':
            i += 1
        elif src.startswith('--', i):
            if i + 2 < n and src[i + 2] == '[' and long_bracket(i + 2) >= 0:
                _, i = read_long(i + 2, long_bracket(i + 2))
            else:
                while i < n and src[i] != '\n':
                    i += 1
        elif c.isalpha() or c == '_':
            j = i
            while j < n and (src[j].isalnum() or src[j] == '_'):
                j += 1
            w = src[i:j]
            toks.append(('kw' if w in KEYWORDS else 'name', w))
            i = j
        elif c.isdigit() or (c == '.' and i + 1 < n and src[i + 1].isdigit()):
            j = i
            if src.startswith(('0x', '0X'), i):
                j = i + 2
                while j < n and (src[j] in '0123456789abcdefABCDEF_'):
                    j += 1
                val = float(int(src[i + 2:j].replace('_', ''), 16))
            elif src.startswith(('0b', '0B'), i):
                j = i + 2
                while j < n and src[j] in '01_':
                    j += 1
                val = float(int(src[i + 2:j].replace('_', ''), 2))
            else:
                while j < n and (src[j].isdigit() or src[j] == '_'):
                    j += 1
                if j < n and src[j] == '.' and not src.startswith('..', j):
                    j += 1
                    while j < n and (src[j].isdigit() or src[j] == '_'):
                        j += 1
                if j < n and src[j] in 'eE':
                    k = j + 1
                    if k < n and src[k] in '+-':
                        k += 1
                    if k < n and src[k].isdigit():
                        j = k
                        while j < n and (src[j].isdigit() or src[j] == '_'):
                            j += 1
                val = float(src[i:j].replace('_', ''))
            toks.append(('num', (val, src[i:j])))
            i = j
        elif c in '"\'':
            j, buf = i + 1, []
            while True:
                if j >= n or src[j] == '\n':
                    raise ParseError("unfinished string")
                if src[j] == c:
                    break
                if src[j] == '\\':
                    s, j = read_escape(j, c)
                    buf.append(s)
                else:
                    buf.append(src[j])
                    j += 1
            toks.append(('str', ''.join(buf)))
            i = j + 1
        elif c == '`':
            segs, i = read_interp(i)
            toks.append(('interp', segs))
        elif c == '[' and long_bracket(i) >= 0:
            s, i = read_long(i, long_bracket(i))
            toks.append(('str', s))
        else:
            for op in ('...', '..=', '//=', '..', '==', '~=', '<=', '>=', '::', '//', '+=', '-=', '*=', '/=', '%=', '^=', '->'):
                if src.startswith(op, i):
                    toks.append(('op', op))
                    i += len(op)
                    break
            else:
                if c in '+-*/%^#<>=(){}[];:,.?|&':
                    toks.append(('op', c))
                    i += 1
                else:
                    raise ParseError("unexpected character %r" % c)
    return toks


BINPRI = {'or': (1, 1), 'and': (2, 2), '<': (3, 3), '>': (3, 3), '<=': (3, 3), '>=': (3, 3), '~=': (3, 3), '==': (3, 3),
          '..': (5, 4), '+': (6, 6), '-': (6, 6), '*': (7, 7), '/': (7, 7), '//': (7, 7), '%': (7, 7), '^': (10, 9)}
UNARY_PRI = 8
COMPOUND = {'+=': '+', '-=': '-', '*=': '*', '/=': '/', '//=': '//', '%=': '%', '^=': '^', '..=': '..'}


class Parser:
    def __init__(self, toks):
        self.t = toks + [('eof', None)]
        self.p = 0
        self.nodes = []

    # ---- node table
    def mk(self, k, a=0, b=0, c=0, s="", l=None, m=None, ns=None, hi=0, lo=0):
        self.nodes.append({"k": k, "a": a, "b": b, "c": c, "s": s, "l": l or [], "m": m or [], "ns": ns or [],
                           "hi": hi, "lo": lo})
        return len(self.nodes)

    # ---- token helpers
    def peek(self, o=0):
        return self.t[min(self.p + o, len(self.t) - 1)]

    def isop(self, v, o=0):
        k, x = self.peek(o)
        return k in ('op', 'kw') and x == v

    def accept(self, v):
        if self.isop(v):
            self.p += 1
            return True
        return False

    def expect(self, v):
        if not self.accept(v):
            raise ParseError("expected %r near %r" % (v, self.peek()))

    def name(self):
        k, x = self.peek()
        if k != 'name':
            raise ParseError("name expected near %r" % (self.peek(),))
        self.p += 1
        return x

    # ---- types (skipped)
    def skip_type(self):
        self.skip_type_atom()
        while True:
            if self.accept('?'):
                continue
            if self.accept('|') or self.accept('&'):
                self.skip_type_atom()
                continue
            if self.accept('->'):
                self.skip_type()
                continue
            break

    def skip_balanced(self, o, c):
        self.expect(o)
        depth = 1
        while depth:
            k, x = self.peek()
            if k == 'eof':
                raise ParseError("unbalanced type")
            if k == 'op' and x == o:
                depth += 1
            elif k == 'op' and x == c:
                depth -= 1
            self.p += 1

    def skip_type_atom(self):
        k, x = self.peek()
        if self.isop('('):
            self.skip_balanced('(', ')')
        elif self.isop('{'):
            self.skip_balanced('{', '}')
        elif k == 'name' or (k == 'kw' and x in ('nil', 'true', 'false')) or k == 'str':
            self.p += 1
            while self.isop('.') and self.peek(1)[0] == 'name':
                self.p += 2
            if self.isop('<'):
                self.skip_balanced('<', '>')
        elif k == 'kw' and x == 'function':
            self.p += 1
        else:
            raise ParseError("type expected near %r" % (self.peek(),))

    def opt_annotation(self):
        if self.isop(':'):
            self.p += 1
            self.skip_type()

    # ---- blocks and statements
    def block(self):
        stmts = []
        while True:
            k, x = self.peek()
            if k == 'eof' or (k == 'kw' and x in ('end', 'else', 'elseif', 'until')):
                break
            if self.accept(';'):
                continue
            if self.isop('return'):
                self.p += 1
                es = []
                k, x = self.peek()
                if not (k == 'eof' or (k == 'kw' and x in ('end', 'else', 'elseif', 'until')) or self.isop(';')):
                    es = self.explist()
                self.accept(';')
                stmts.append(self.mk('ret', l=es))
                break
            if self.isop('break'):
                self.p += 1
                self.accept(';')
                stmts.append(self.mk('break'))
                continue
            stmts.append(self.statement())
        return self.mk('block', l=stmts)

    def statement(self):
        k, x = self.peek()
        if k == 'kw':
            if x == 'do':
                self.p += 1
                b = self.block()
                self.expect('end')
                return self.mk('do', a=b)
            if x == 'while':
                self.p += 1
                c = self.expr()
                self.expect('do')
                b = self.block()
                self.expect('end')
                return self.mk('while', a=c, b=b)
            if x == 'repeat':
                self.p += 1
                b = self.block()
                self.expect('until')
                c = self.expr()
                return self.mk('repeat', a=b, b=c)
            if x == 'if':
                self.p += 1
                l = []
                c = self.expr()
                self.expect('then')
                l += [c, self.block()]
                els = 0
                while True:
                    if self.accept('elseif'):
                        c = self.expr()
                        self.expect('then')
                        l += [c, self.block()]
                    elif self.accept('else'):
                        els = self.block()
                        self.expect('end')
                        break
                    else:
                        self.expect('end')
                        break
                return self.mk('if', l=l, c=els)
            if x == 'for':
                self.p += 1
                n1 = self.name()
                self.opt_annotation()
                if self.accept('='):
                    es = [self.expr()]
                    self.expect(',')
                    es.append(self.expr())
                    if self.accept(','):
                        es.append(self.expr())
                    self.expect('do')
                    b = self.block()
                    self.expect('end')
                    return self.mk('numfor', s=n1, l=es, b=b)
                names = [n1]
                while self.accept(','):
                    names.append(self.name())
                    self.opt_annotation()
                self.expect('in')
                es = self.explist()
                self.expect('do')
                b = self.block()
                self.expect('end')
                return self.mk('genfor', ns=names, l=es, b=b)
            if x == 'function':
                self.p += 1
                path = [self.name()]
                meth = ""
                while self.accept('.'):
                    path.append(self.name())
                if self.accept(':'):
                    meth = self.name()
                f = self.funcbody()
                return self.mk('funcstmt', ns=path, s=meth, a=f)
            if x == 'local':
                self.p += 1
                if self.accept('function'):
                    nm = self.name()
                    f = self.funcbody()
                    return self.mk('localfn', s=nm, a=f)
                names, const = [], 0
                while True:
                    names.append(self.name())
                    if self.isop('<'):           # attribs <const>
                        self.p += 1
                        if self.name() == 'const':
                            const = 1
                        self.expect('>')
                    self.opt_annotation()
                    if not self.accept(','):
                        break
                es = self.explist() if self.accept('=') else []
                return self.mk('local', ns=names, l=es, c=const)
        if k == 'name' and x == 'continue':
            k2, x2 = self.peek(1)
            if k2 == 'eof' or (k2 == 'kw' and x2 in ('end', 'else', 'elseif', 'until')) or (k2 == 'op' and x2 == ';'):
                self.p += 1
                self.accept(';')
                return self.mk('continue')
        if k == 'name' and x == 'type' and self.peek(1)[0] == 'name' and (self.isop('=', 2) or self.isop('<', 2)):
            self.p += 2
            if self.isop('<'):
                self.skip_balanced('<', '>')
            self.expect('=')
            self.skip_type()
            return self.mk('typedecl')
        if k == 'name' and x == 'export' and self.peek(1) == ('name', 'type'):
            self.p += 1
            return self.statement()
        # expression statement
        e = self.suffixedexp()
        if self.isop('=') or self.isop(','):
            targets = [e]
            while self.accept(','):
                targets.append(self.suffixedexp())
            self.expect('=')
            vals = self.explist()
            for t in targets:
                if self.nodes[t - 1]['k'] not in ('var', 'index', 'field'):
                    raise ParseError("cannot assign")
            return self.mk('assign', l=targets, m=vals)
        k, x = self.peek()
        if k == 'op' and x in COMPOUND:
            self.p += 1
            v = self.expr()
            if self.nodes[e - 1]['k'] not in ('var', 'index', 'field'):
                raise ParseError("cannot assign")
            return self.mk('compound', s=COMPOUND[x], a=e, b=v)
        if self.nodes[e - 1]['k'] not in ('call', 'mcall'):
            raise ParseError("syntax error: expression is not a statement near %r" % (self.peek(),))
        return self.mk('callstmt', a=e)

    def funcbody(self):
        if self.isop('<'):
            self.skip_balanced('<', '>')
        self.expect('(')
        params, va = [], 0
        if not self.isop(')'):
            while True:
                if self.accept('...'):
                    va = 1
                    self.opt_annotation()
                    break
                params.append(self.name())
                self.opt_annotation()
                if not self.accept(','):
                    break
        self.expect(')')
        self.opt_annotation()
        b = self.block()
        self.expect('end')
        return self.mk('fn', ns=params, c=va, b=b)

    # ---- expressions
    def explist(self):
        es = [self.expr()]
        while self.accept(','):
            es.append(self.expr())
        return es

    def primaryexp(self):
        k, x = self.peek()
        if k == 'name':
            self.p += 1
            return self.mk('var', s=x)
        if self.accept('('):
            e = self.expr()
            self.expect(')')
            return self.mk('paren', a=e)
        raise ParseError("unexpected symbol near %r" % (self.peek(),))

    def suffixedexp(self):
        e = self.primaryexp()
        while True:
            k, x = self.peek()
            if self.isop('.'):
                self.p += 1
                e = self.mk('field', a=e, s=self.name())
            elif self.isop('['):
                self.p += 1
                kx = self.expr()
                self.expect(']')
                e = self.mk('index', a=e, b=kx)
            elif self.isop(':') and self.peek(1)[0] == 'name' and (self.isop('(', 2) or self.isop('{', 2) or self.peek(2)[0] == 'str'):
                self.p += 1
                nm = self.name()
                e = self.mk('mcall', a=e, s=nm, l=self.callargs())
            elif self.isop('(') or self.isop('{') or k == 'str':
                e = self.mk('call', a=e, l=self.callargs())
            else:
                return e

    def callargs(self):
        k, x = self.peek()
        if k == 'str':
            self.p += 1
            return [self.mk('str', s=x)]
        if self.isop('{'):
            return [self.tablecons()]
        self.expect('(')
        if self.accept(')'):
            return []
        es = self.explist()
        self.expect(')')
        return es

    def tablecons(self):
        self.expect('{')
        entries = []
        while not self.isop('}'):
            if self.isop('['):
                self.p += 1
                kx = self.expr()
                self.expect(']')
                self.expect('=')
                entries.append(self.mk('tkey', a=kx, b=self.expr()))
            elif self.peek()[0] == 'name' and self.isop('=', 1):
                nm = self.name()
                self.p += 1
                entries.append(self.mk('tnamed', s=nm, a=self.expr()))
            else:
                entries.append(self.mk('tpos', a=self.expr()))
            if not (self.accept(',') or self.accept(';')):
                break
        self.expect('}')
        return self.mk('table', l=entries)

    def simpleexp(self):
        k, x = self.peek()
        if k == 'num':
            self.p += 1
            bits = struct.unpack('>q', struct.pack('>d', x[0]))[0]
            if x[0] != x[0]:
                bits = 0x7ff8000000000000
            hi = (bits >> 32) & 0xffffffff
            lo = bits & 0xffffffff
            hi = hi - (1 << 32) if hi >= (1 << 31) else hi
            lo = lo - (1 << 32) if lo >= (1 << 31) else lo
            return self.mk('num', hi=hi, lo=lo, s=x[1])
        if k == 'str':
            self.p += 1
            return self.mk('str', s=x)
        if k == 'interp':
            self.p += 1
            segs = []
            for kind, v in x:
                if kind == 's':
                    if v != '' or len(x) == 1:
                        segs.append(self.mk('istr', s=v))
                else:
                    sub = Parser(v)
                    sub.nodes = self.nodes
                    e = sub.expr()
                    if sub.peek()[0] != 'eof':
                        raise ParseError("junk in interpolation")
                    segs.append(self.mk('ival', a=e))
            return self.mk('interp', l=segs)
        if k == 'kw':
            if x in ('nil', 'true', 'false'):
                self.p += 1
                return self.mk(x)
            if x == 'function':
                self.p += 1
                return self.funcbody()
            if x == 'if':
                return self.ifexp()
        if self.isop('...'):
            self.p += 1
            return self.mk('vararg')
        if self.isop('{'):
            return self.tablecons()
        return self.suffixedexp()

    def ifexp(self):
        self.p += 1            # 'if' or 'elseif'
        c = self.expr()
        self.expect('then')
        a = self.expr()
        if self.isop('elseif'):
            b = self.ifexp()
        else:
            self.expect('else')
            b = self.expr()
        return self.mk('ifexp', a=c, b=a, c=b)

    def expr(self, limit=0):
        k, x = self.peek()
        if self.isop('not') or self.isop('-') or self.isop('#'):
            self.p += 1
            o = self.expr(UNARY_PRI)
            e = self.mk({'not': 'not', '-': 'neg', '#': 'len'}[x], a=o)
        else:
            e = self.simpleexp()
            while self.accept('::'):
                self.skip_type()
                e = self.mk('cast', a=e)
        while True:
            k, x = self.peek()
            if k in ('op', 'kw') and x in BINPRI and BINPRI[x][0] > limit:
                self.p += 1
                r = self.expr(BINPRI[x][1])
                if x in ('and', 'or'):
                    e = self.mk(x, a=e, b=r)
                else:
                    e = self.mk('bin', s=x, a=e, b=r)
            else:
                return e


def parse(src):
    """src: str of latin-1 'bytes'. Returns the program dict."""
    p = Parser(lex(src))
    root = p.block()
    if p.peek()[0] != 'eof':
        raise ParseError("unexpected %r" % (p.peek(),))
    return {"root": root, "nodes": p.nodes}


def dumps(prog):
    """JSON with every byte outside 0x20..0x7e written as \\u00XX."""
    return json.dumps(prog, ensure_ascii=True, separators=(',', ':'))


if __name__ == '__main__':
    data = open(sys.argv[1], 'rb').read().decode('latin-1')
    print(dumps(parse(data)))
