---------------------------- MODULE LifecycleTrace ----------------------------
(* I->S for C12: every recorded run (its sequence of lifecycle events) must be a behaviour of Pipeline!Life. *)
EXTENDS Pipeline, Json, IOUtils
Obs == ndJsonDeserialize(IOEnv.OBS)
VARIABLE i
W == 64
Init == i \in 1..(IF Len(Obs) < W THEN Len(Obs) ELSE W)
Next == i + W <= Len(Obs) /\ i' = i + W
Judge(o) == [id |-> o.id, ok |-> Accepted(o.events), final |-> RunLife(LifeInit, o.events, 1), last |-> IF Len(o.events) = 0 THEN "" ELSE o.events[Len(o.events)]]
Emit == PrintT("VERDICT " \o ToJson(Judge(Obs[i])))
=============================================================================
