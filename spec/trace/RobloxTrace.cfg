INIT Init
NEXT Next
INVARIANT Judge
