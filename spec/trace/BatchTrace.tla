----------------------------- MODULE BatchTrace -----------------------------
(* I->S validation for C11: every observation recorded by `dlv batch` from the real darklua    *)
(* (tree before, tree after the run, after a second run, after a run on a tree created in      *)
(* reverse order, after a run on the tree without the faulty files; error lists; panics; for   *)
(* the .luaurc configurations also: after runs with the sources registered in explicit orders,  *)
(* after a run on each healthy file alone, what each output shows of the alias resolution) is   *)
(* judged against the clauses of Batch.tla.  One VERDICT line per observation, one boolean per *)
(* clause, plus what identifies a violation (first offending path, whether the known deviation *)
(* F-C11-a explains every offender of the clause).                                             *)
EXTENDS Batch, Json, IOUtils

Obs == ndJsonDeserialize(IOEnv.OBS)

VARIABLE i
Init == i \in 1..Len(Obs)
Next == UNCHANGED i

\* listing (sequence of [s, k, n, h]) -> function path -> [k, n, h]
TreeOf(l) ==
  LET idx(p) == CHOOSE j \in 1..Len(l) : l[j].s = p IN
  [p \in {l[j].s : j \in 1..Len(l)} |-> [k |-> l[idx(p)].k, n |-> l[idx(p)].n, h |-> l[idx(p)].h]]

CaseOf(o) == [root |-> o.case.root, fi |-> o.case.fi, st |-> o.case.st, out |-> o.case.out, ff |-> o.case.ff, cfg |-> o.case.cfg]

PathStr(p) == IF p = <<>> THEN "" ELSE
  LET G[k \in 1..Len(p)] == IF k = 1 THEN p[1] ELSE G[k - 1] \o "/" \o p[k] IN G[Len(p)]

\* a deterministic representative of a set of paths / of a set of entries (for the violation signature)
FirstPath(S) == IF S = {} THEN "" ELSE PathStr(CHOOSE p \in S : TRUE)
MinOf(S) == CHOOSE x \in S : \A y \in S : x <= y
\* prefer an offender that the known deviation does NOT explain
FirstEntry(c, S) ==
  IF S = {} THEN 0
  ELSE LET un == {x \in S : ~RootFilterExplains(c, x)} IN IF un # {} THEN MinOf(un) ELSE MinOf(S)
EntryPath(c, x) == IF x = 0 THEN "" ELSE PathStr(Src(x))
AllExplained(c, S) == S # {} /\ \A x \in S : RootFilterExplains(c, x)

\* the tree the renderer created is the tree of the model (files; in-memory resources have no directories)
RenderOK(o, c, t0) ==
  /\ {p \in DOMAIN t0 : t0[p].k = "f"} = {r.p : r \in {x \in InitialTree(c) : x.k = "f"}}
  /\ o.world = "fs" => \A r \in {x \in InitialTree(c) : x.k = "d"} : At(t0, r.p).k = "d"

\* ---- per-directory context (.luaurc configurations; the lists are empty for the other configurations)
FilesOf(t) == {p \in DOMAIN t : t[p].k = "f"}
\* the driver did what the clauses presuppose: the orders cover every ordered pair of files, every healthy file was
\* processed alone on the tree the model defines, every produced output was probed
HarnessOK(o, c, t0, t1) ==
  IF ~Rc(c) THEN Len(o.orders) = 0 /\ Len(o.alone) = 0 /\ (Len(o.ev) = 0 \/ c.cfg = "aliasdup")    \* aliasdup: the written alias is recorded (informational)
  ELSE
    /\ Work(c) # {} => OrdersCover(c, [n \in 1..Len(o.orders) |-> o.orders[n].ord])
    /\ {o.alone[n].e : n \in 1..Len(o.alone)} = HealthySet(c) /\ Len(o.alone) = Cardinality(HealthySet(c))
    /\ \A n \in 1..Len(o.alone) :
         FilesOf(TreeOf(o.alone[n].t0)) = {r.p : r \in {x \in AloneTree(c, o.alone[n].e) : x.k = "f"}}
    /\ \A x \in HealthySet(c) : At(t1, Dest(c, x)).k = "f" => \E n \in 1..Len(o.ev) : o.ev[n].e = x
\* paths that differ after some explicit-order run
OrderOff(o, c, t1) == UNION {OrderOffenders(c, t1, TreeOf(o.orders[n].t1)) : n \in 1..Len(o.orders)}
\* healthy files whose output differs from the one they get alone
AloneOff(o, c, t0, t1) == {o.alone[n].e : n \in {m \in 1..Len(o.alone) : AloneOffends(c, o.alone[m].e, t0, t1, TreeOf(o.alone[m].t1))}}
\* produced outputs that do not refer to the m1 of the nearest .luaurc
NearestOff(o, c, t0, t1) ==
  IF ~Rc(c) THEN {}
  ELSE {x \in HealthySet(c) : Produced(c, x, t0, t1) /\ ~\E n \in 1..Len(o.ev) : o.ev[n].e = x /\ NearestOK(c, x, o.ev[n])}
PanicIn(l) == \E n \in 1..Len(l) : l[n].panic # ""

Judge == LET o == Obs[i] IN
  LET c == CaseOf(o) IN
  LET t0 == TreeOf(o.t0) IN
  LET t1 == TreeOf(o.main.t1) IN
  LET u1 == TreeOf(o.rep.t1) IN
  LET a1 == IF o.again.ran THEN TreeOf(o.again.t1) ELSE t1 IN
  LET r1 == IF o.ref.ran THEN TreeOf(o.ref.t1) ELSE t1 IN      \* no faulty file (or no healthy one): nothing to compare
  LET o121 == OneToOneOffenders(c, t0, t1) IN
  LET nff  == NothingForFaultyOffenders(c, t0, t1) IN
  LET inp  == InputsUntouchedOffenders(c, t0, t1) IN
  LET els  == NothingElseOffenders(c, t0, t1) IN
  LET rpt  == ReportedOffenders(c, o.main.errs) IN
  LET iso  == IsolationOffenders(c, t0, t1, r1) IN
  LET det  == DetOffenders(c, t1, u1) \cup DetOffenders(c, t1, a1) IN
  LET ord  == OrderOff(o, c, t1) IN
  LET aln  == AloneOff(o, c, t0, t1) IN
  LET nea  == NearestOff(o, c, t0, t1) IN
  LET pan  == o.main.panic # "" \/ o.rep.panic # "" \/ o.again.panic # "" \/ o.ref.panic # "" \/ PanicIn(o.orders) \/ PanicIn(o.alone) IN
  PrintT("VERDICT " \o ToJson([
     id |-> o.id, world |-> o.world,
     wellformed |-> WellFormedCase(c), render_ok |-> RenderOK(o, c, t0), harness_ok |-> HarnessOK(o, c, t0, t1),
     onetoone |-> o121 = {}, nothing_for_faulty |-> nff = {}, inputs_untouched |-> inp = {}, nothing_else |-> els = {},
     reported |-> rpt = {}, isolation |-> iso = {}, deterministic |-> det = {}, no_panic |-> ~pan,
     order_independent |-> ord = {}, same_as_alone |-> aln = {}, nearest_luaurc |-> nea = {},
     off_order_independent |-> FirstPath(ord), x_order_independent |-> FALSE,
     off_same_as_alone |-> EntryPath(c, FirstEntry(c, aln)), x_same_as_alone |-> FALSE,
     off_nearest_luaurc |-> EntryPath(c, FirstEntry(c, nea)), x_nearest_luaurc |-> FALSE,
     rc |-> Rc(c), norders |-> Len(o.orders), nalone |-> Len(o.alone), nprobed |-> Len(o.ev),
     off_onetoone |-> EntryPath(c, FirstEntry(c, o121)), x_onetoone |-> AllExplained(c, o121),
     off_nothing_for_faulty |-> EntryPath(c, FirstEntry(c, nff)), x_nothing_for_faulty |-> FALSE,
     off_inputs_untouched |-> FirstPath(inp), x_inputs_untouched |-> FALSE,
     off_nothing_else |-> FirstPath(els), x_nothing_else |-> FALSE,
     off_reported |-> EntryPath(c, FirstEntry(c, rpt)), x_reported |-> AllExplained(c, rpt),
     off_isolation |-> EntryPath(c, FirstEntry(c, iso)), x_isolation |-> FALSE,
     off_deterministic |-> FirstPath(det), x_deterministic |-> FALSE,
     off_no_panic |-> IF pan THEN "panic" ELSE "", x_no_panic |-> FALSE,
     strong |-> Strong(c), inplace |-> InPlace(c),
     nfaulty |-> Cardinality(FaultySet(c)), nhealthy |-> Cardinality(HealthySet(c)),
     nexpected |-> Cardinality(ExpectedOutputs(c)), nerrors |-> Len(o.main.errs),
     nweak |-> Cardinality(WeaklyReported(c, o.main.errs))]))
=============================================================================
