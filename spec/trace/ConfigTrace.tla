---------------------------- MODULE ConfigTrace ----------------------------
(* I->S validation for C19.  Every observation recorded by `dlv config` from the real darklua_core  *)
(* (json5::from_str::<Configuration>, serde_json::to_string, reading the written text again,        *)
(* darklua_core::process over the probe project with both configurations) is judged against Config: *)
(*   strict      accepted by the code  =  ValidIdeal(t)  (validity as the property states it)        *)
(*   roundtrip   the written text was read back by the code, the real outputs of both configurations *)
(*               are byte-identical, and the written text -- read by the MODEL -- behaves like t      *)
(*   idempotent  writing the re-read configuration gives the same text again                          *)
(*   conform     the written text is Ser(Parse(t)) under today's deviation flags (drift, not a verdict)*)
(*   injective   (groups of observations with the same written text, formed by the check script)      *)
(*               all members have equal Behaves AND equal real output digests                         *)
EXTENDS Config, Json

Obs == ndJsonDeserialize(IOEnv.OBS)
Groups == IF "GROUPS" \in DOMAIN IOEnv THEN ndJsonDeserialize(IOEnv.GROUPS) ELSE <<>>

VARIABLE i
Init == i \in 1..(Len(Obs) + Len(Groups))
Next == UNCHANGED i

D(site, keys) == [site |-> site, keys |-> keys]
NameOf(rt) == LET es == rt.entries IN IF Has(es, "rule") /\ Get(es, "rule").ty = "str" THEN Get(es, "rule").v[1] ELSE "rules"
\* every place where two behaviours differ
RECURSIVE RuleDiffs(_, _, _)
RuleDiffs(x, y, k) ==
  IF k > Len(x) THEN <<>>
  ELSE (IF x[k] = y[k] THEN <<>>
        ELSE IF x[k].name # y[k].name THEN <<D(x[k].name, <<"!name">>)>>
        ELSE <<D(x[k].name, SetToSeqS(RuleDiff(x[k], y[k])))>>) \o RuleDiffs(x, y, k + 1)
Diffs(x, y) ==
  (IF Len(x.rules) # Len(y.rules) THEN <<D("rules", <<"!count">>)>> ELSE RuleDiffs(x.rules, y.rules, 1))
  \o (IF x.gen # y.gen THEN <<D("generator", <<>>)>> ELSE <<>>)
  \o (IF x.bundle # y.bundle THEN <<D("bundle", <<>>)>> ELSE <<>>)
  \o (IF x.apply # y.apply THEN <<D("top", <<"apply_to_files">>)>> ELSE <<>>)
  \o (IF x.skip # y.skip THEN <<D("top", <<"skip_files">>)>> ELSE <<>>)
\* the rules of a written text that the model refuses to read
RECURSIVE Refused(_, _)
Refused(rs, k) == IF k > Len(rs) THEN <<>> ELSE (IF ParseRule(rs[k]).ok THEN <<>> ELSE <<D(NameOf(rs[k]), <<"!unreadable">>)>>) \o Refused(rs, k + 1)
Unreadable(t) == LET r == Refused(t.rules, 1) IN IF r = <<>> THEN <<D("top", <<"!unreadable">>)>> ELSE r

JudgeObs(o) ==
  LET p  == Parse(o.t) IN
  LET b  == Behaves(p.cfg) IN
  LET po == Parse(o.out) IN
  LET bo == Behaves(po.cfg) IN
  LET ideal == ValidIdeal(o.t) IN
  LET both == o.accepted /\ p.ok /\ ideal IN
  LET modelDiffs == IF ~both THEN <<>> ELSE IF ~po.ok THEN Unreadable(o.out) ELSE Diffs(b, bo) IN
  LET realOK == o.reparsed /\ o.ran /\ o.same_outputs IN
  LET rtOK == both => (realOK /\ po.ok /\ modelDiffs = <<>>) IN
  \* a written text the code reads back and that behaves identically, but that the model cannot read: the model is out of date
  LET modelBlind == both /\ realOK /\ ~po.ok IN
  PrintT("VERDICT " \o ToJson([
    id |-> o.id, expected_valid |-> ideal, expected_by_code_model |-> p.ok, accepted |-> o.accepted,
    strict_ok |-> (o.accepted = ideal),
    rt_ok |-> (rtOK \/ modelBlind), real_ok |-> (both => realOK), model_blind |-> modelBlind,
    diffs |-> IF both /\ ~rtOK /\ ~modelBlind /\ modelDiffs = <<>> THEN <<D("unexplained", <<>>)>> ELSE IF modelBlind THEN <<>> ELSE modelDiffs,
    idem_ok |-> ((both /\ o.reparsed) => TextEq(o.out2, o.out)),
    conform |-> (both => TextEq(o.out, Ser(p.cfg))),
    panic |-> o.panic]))

JudgeGroup(g) ==
  LET ms == g.members IN
  LET first == Obs[ms[1]] IN
  LET b1 == Behaves(Parse(first.t).cfg) IN
  LET Differs(j) == Behaves(Parse(Obs[ms[j]].t).cfg) # b1 \/ Obs[ms[j]].digest # first.digest IN
  LET RECURSIVE Pairs(_)
      Pairs(j) == IF j > Len(ms) THEN <<>>
                  ELSE (IF Differs(j) THEN <<[a |-> first.id, b |-> Obs[ms[j]].id,
                                          real_differs |-> Obs[ms[j]].digest # first.digest,
                                          diffs |-> Diffs(b1, Behaves(Parse(Obs[ms[j]].t).cfg))]>> ELSE <<>>) \o Pairs(j + 1)
  IN PrintT("GROUP " \o ToJson([gid |-> g.gid, size |-> Len(ms), ok |-> (\A j \in 2..Len(ms) : ~Differs(j)), pairs |-> Pairs(2)]))

Judge == IF i <= Len(Obs) THEN JudgeObs(Obs[i]) ELSE JudgeGroup(Groups[i - Len(Obs)])
=============================================================================
