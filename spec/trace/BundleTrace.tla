----------------------------- MODULE BundleTrace -----------------------------
(* I->S validation for C05 (error path and shape of the bundle): every observation recorded   *)
(* from the real bundler -- did `process` report an error, which files does the message name, *)
(* did it panic or exceed the time bound, how many module bodies does the bundle define -- is  *)
(* judged against the machine of spec/darklua/Bundle.tla run on the same graph (Final(g)):     *)
(*   error_ok : an error is reported exactly when the model ends with errors                   *)
(*              (cyclic graph, missing file, unparsable module, module returning 0 or 2 values)*)
(*   named_ok : every file of every model error (the whole cycle, the missing request, the     *)
(*              faulty module) is named in the reported message                                *)
(*   calm_ok  : no panic, no hang                                                              *)
(*   defs_ok  : (internal conformance, DRIFT only) the bundle defines exactly |defs| bodies    *)
EXTENDS Bundle, Json, IOUtils

Obs == ndJsonDeserialize(IOEnv.OBS)
VARIABLE i
TInit == i \in 1..Len(Obs)
TNext == UNCHANGED i

GraphOf(o) == [n |-> o.g.n, kind |-> o.g.kind, calls |-> o.g.calls]
Judge == LET o == Obs[i] IN LET G == GraphOf(o) IN LET m == Final(G) IN
  LET must == m.errors # <<>> IN
  LET named == {o.named[k] : k \in 1..Len(o.named)} IN
  LET need == UNION {SeqToSet(m.errors[k].files) : k \in 1..Len(m.errors)} IN
  PrintT("VERDICT " \o ToJson([
    id |-> o.id,
    finished |-> m.pc = "done",
    must_error |-> must,
    error_ok |-> (o.panic = 1 \/ o.hang = 1) \/ ((o.error = 1) <=> must),
    named_ok |-> (o.error = 1 /\ must) => need \subseteq named,
    missing_names |-> IF o.error = 1 /\ must THEN LET q == need \ named IN [k \in 1..Cardinality(q) |-> CHOOSE f \in q : Cardinality({x \in q : x < f}) = k - 1] ELSE <<>>,
    calm_ok |-> o.panic = 0 /\ o.hang = 0 /\ o.nooutput = 0,
    defs_ok |-> (o.ndefs < 0 \/ must) \/ o.ndefs = Len(m.defs),
    model_defs |-> Len(m.defs),
    cyclic |-> HasCycle(G),
    shadow_in_module |-> ShadowedCallInModule(G) /\ ~ShadowRespected(G, m),
    kinds |-> [k \in 1..Len(m.errors) |-> m.errors[k].kind] ]))
=============================================================================
