------------------------------ MODULE EvalTrace ------------------------------
(* V of C08: judges the answers recorded from darklua's real static evaluator against executions  *)
(* under the TLA+ semantics of Lua (LuaSem).                                                        *)
(*                                                                                                  *)
(* Input (environment variable CASES, ndjson, written by `dlv evaluator`): per expression            *)
(*   [id, expr, nx, va, same, a, b, rhos, ans = [vt, hi, lo, s, se, multi, pse], ...]                *)
(* a / b are TEMPLATE programs of the original expression and of what compute_expression made of it *)
(* (Evaluator!TemplateOk); every rho in rhos is instantiated with Evaluator!Concretise and executed. *)
(* One behaviour per expression: the concretisations are run one after the other (macro-steps of    *)
(* Macro machine steps per TLC transition) and an accumulator collects, per clause of the property,  *)
(* how many runs agree ("ok"), contradict ("viol") or impose nothing. Clauses (Evaluator.tla):       *)
(*   V  definite value / known type  => every error-free run yields exactly it                      *)
(*   S  side_effects = false         => no external call, no metamethod                              *)
(*   M  can_return_multiple = false  => exactly one value                                            *)
(*   P  side_effects = false under assume_pure_metamethods, judged on metatable-free concretisations *)
(*   F  the text written by compute_expression behaves like the original (same log, same values)     *)
(* Runs ending in error / unspec / fuel impose nothing.                                              *)
(*                                                                                                  *)
(* NaN in `..`: LuaSem stops with `unspec` when a NaN is converted to a string (Lua 5.1 prints        *)
(* "nan" or "-nan" depending on platform and sign bit, Luau prints "nan"). Here the run is instead   *)
(* continued under BOTH spellings (the NaN operand of the pending concatenation is replaced by the   *)
(* string): a clause is violated on such a run only if it is violated under every spelling, it holds  *)
(* only if it holds under every spelling; a run that formats two or more NaNs decides nothing.       *)
(* Such a run is executed a third time with darklua's own spelling "NaN": a violation that           *)
(* disappears under that spelling is EXPLAINED by the spelling alone (counter expl; finding F-C08-b). *)
(* Output: one raw line  VERDICT {json}  per expression.                                             *)
EXTENDS Integers, Sequences, FiniteSets, TLC, Json, IOUtils, LuaSem
EV == INSTANCE Evaluator

Cases == ndJsonDeserialize(IOEnv.CASES)
Macro == 250
Fuel  == 20000
NaNSpell == <<"nan", "-nan", "NaN">>     \* 1, 2: the reference implementations; 3: Rust's f64::to_string (attribution only)

ProgOf(p) == [root |-> p.root, nodes |-> p.nodes, req |-> <<>>]

\* ---------------------------------------------------------------- running with a NaN spelling
NaNPending(P, m) ==
  /\ m.ctl.m = "V" /\ Len(m.kont) > 0 /\ Len(m.ctl.vs) = 1
  /\ LET f == m.kont[Len(m.kont)] IN
     /\ f.k = "binR" /\ Len(f.vs) = 1
     /\ Node(P, f.n).k = "bin" /\ Node(P, f.n).s = ".."
     /\ f.vs[1].t \in {"str", "num"} /\ m.ctl.vs[1].t \in {"str", "num"}
     /\ (IsNaNV(f.vs[1]) \/ IsNaNV(m.ctl.vs[1]))
NaNCount(m) == LET f == m.kont[Len(m.kont)] IN (IF IsNaNV(f.vs[1]) THEN 1 ELSE 0) + (IF IsNaNV(m.ctl.vs[1]) THEN 1 ELSE 0)
PatchNaN(m, sp) ==
  LET n == Len(m.kont) IN LET a == m.kont[n].vs[1] IN LET b == m.ctl.vs[1] IN
  [m EXCEPT !.kont[n].vs = <<IF IsNaNV(a) THEN Str(sp) ELSE a>>, !.ctl.vs = <<IF IsNaNV(b) THEN Str(sp) ELSE b>>]
\* <<machine, number of NaNs formatted so far>>
RECURSIVE RunSp(_, _, _, _, _)
RunSp(P, m, hit, fuel, sp) ==
  IF m.st # "run" \/ fuel = 0 THEN <<m, hit>>
  ELSE IF NaNPending(P, m) THEN RunSp(P, Step(P, PatchNaN(m, sp)), hit + NaNCount(m), fuel - 1, sp)
  ELSE RunSp(P, Step(P, m), hit, fuel - 1, sp)

\* ---------------------------------------------------------------- jobs of one concretisation
\* jobs 1..3: original under spelling 1, 2, 3 (2 and 3 only if job 1 formatted a NaN);
\* jobs 4..6: folded text under spelling 1, 2, 3 (4 only if the fold changed the text and the original ran to
\*            completion; 5 and 6 only if job 4 formatted a NaN)
Rho(c, k) == c.rhos[k]
JobProg(c, k, j) == ProgOf(EV!Concretise(IF j <= 3 THEN c.a ELSE c.b, c.nx, c.va, Rho(c, k)))
JobSp(j) == NaNSpell[((j - 1) % 3) + 1]
NoRes == [st |-> "notrun", why |-> "", ret |-> <<>>, log |-> <<>>, nlog |-> 0, meta |-> 0, steps |-> 0, hit |-> 0]
ResOf(m, hit) == [st |-> m.st, why |-> m.why, ret |-> m.ret, log |-> m.log, nlog |-> Len(m.log), meta |-> m.meta, steps |-> m.steps, hit |-> hit]
\* results under spelling s (1 or 2) of the original (A) and the folded text (B)
ResA(res, s) == IF s = 1 \/ res[1].hit = 0 THEN res[1] ELSE res[s]
ResB(res, s) == IF s = 1 \/ res[4].hit = 0 THEN res[4] ELSE res[3 + s]
NeedJob(c, j, res) ==
  CASE j \in {2, 3} -> res[1].hit > 0
    [] j = 4 -> c.same = 0 /\ (res[1].st = "done" \/ (res[1].hit > 0 /\ (res[2].st = "done" \/ res[3].st = "done")))
    [] j \in {5, 6} -> res[4].st # "notrun" /\ res[4].hit > 0
    [] OTHER -> FALSE
RECURSIVE NextJob(_, _, _)
NextJob(c, j, res) == IF j >= 6 THEN 7 ELSE IF NeedJob(c, j + 1, res) THEN j + 1 ELSE NextJob(c, j + 1, res)

\* ---------------------------------------------------------------- judging one concretisation
\* outcome under both spellings: equal outcomes stand, different outcomes decide nothing;
\* a run that formatted more than one NaN decides nothing
Both(o1, o2, hits) == IF o1 = "na" THEN "na" ELSE IF hits > 1 THEN "none" ELSE IF o1 = o2 THEN o1 ELSE "none"
FoldOutcome(a, b) ==      \* a: result of the original, b: result of the folded text, same spelling
  IF a.st # "done" THEN "none"
  ELSE IF b.st = "done" /\ b.log = a.log /\ b.ret = a.ret THEN "ok"
  ELSE IF b.st \in {"unspec", "fuel", "notrun"} THEN "none"
  ELSE "viol"
RhoOutcome(c, k, res) ==
  LET rho == Rho(c, k) IN LET base == EV!BaseLog(c.nx, rho) IN
  LET a1 == ResA(res, 1) IN LET a2 == ResA(res, 2) IN LET a3 == ResA(res, 3) IN
  LET ha == res[1].hit IN
  LET hb == IF res[4].st = "notrun" THEN 0 ELSE res[4].hit IN
  \* per clause: <<outcome under the reference spellings, outcome under darklua's spelling>>
  [ v |-> <<Both(EV!ClauseV(c.ans, a1), EV!ClauseV(c.ans, a2), ha), EV!ClauseV(c.ans, a3)>>,
    s |-> <<Both(EV!ClauseS(c.ans.se, a1, base), EV!ClauseS(c.ans.se, a2, base), ha), EV!ClauseS(c.ans.se, a3, base)>>,
    m |-> <<Both(EV!ClauseM(c.ans, a1), EV!ClauseM(c.ans, a2), ha), EV!ClauseM(c.ans, a3)>>,
    p |-> IF EV!IsLoud(c.nx, rho) THEN <<"na", "na">>
          ELSE <<Both(EV!ClauseS(c.ans.pse, a1, base), EV!ClauseS(c.ans.pse, a2, base), ha), EV!ClauseS(c.ans.pse, a3, base)>>,
    f |-> IF c.same = 1 THEN <<"na", "na">>
          ELSE <<Both(FoldOutcome(a1, ResB(res, 1)), FoldOutcome(a2, ResB(res, 2)), IF ha > hb THEN ha ELSE hb), FoldOutcome(a3, ResB(res, 3))>> ]

\* accumulator: per clause ok / viol counters, index of the first violating concretisation, what was observed there
Clauses == <<"v", "s", "m", "p", "f">>
NoObs == [st |-> "", ret |-> <<>>, nlog |-> 0, meta |-> 0, hit |-> 0, bst |-> "", bwhy |-> "", bret |-> <<>>, bnlog |-> 0]
Zero5 == [v |-> 0, s |-> 0, m |-> 0, p |-> 0, f |-> 0]
Acc0 == [ok |-> Zero5, viol |-> Zero5, expl |-> Zero5, first |-> Zero5, obs |-> [v |-> NoObs, s |-> NoObs, m |-> NoObs, p |-> NoObs, f |-> NoObs],
         nrun |-> 0, ndone |-> 0, nerror |-> 0, nunspec |-> 0, nfuel |-> 0, nnan |-> 0, njobs |-> 0, steps |-> 0, bad |-> 0,
         whys |-> <<>>]
ObsOf(res) == LET a == res[1] IN LET b == res[4] IN
              [st |-> a.st, ret |-> a.ret, nlog |-> a.nlog, meta |-> a.meta, hit |-> a.hit, bst |-> b.st, bwhy |-> b.why, bret |-> b.ret, bnlog |-> b.nlog]
AddWhy(ws, w) == IF Len(ws) >= 3 \/ \E q \in 1..Len(ws) : ws[q] = w THEN ws ELSE Append(ws, w)
Judge(c, k, res, acc) ==
  LET o == RhoOutcome(c, k, res) IN
  LET a == res[1] IN
  LET upd(x, A) == IF o[x][1] = "ok" THEN [A EXCEPT !.ok[x] = @ + 1]
                   ELSE IF o[x][1] = "viol" THEN [A EXCEPT !.viol[x] = @ + 1, !.first[x] = IF @ = 0 THEN k ELSE @,
                                                        !.expl[x] = @ + (IF a.hit > 0 /\ o[x][2] = "ok" THEN 1 ELSE 0),
                                                        !.obs[x] = IF A.first[x] = 0 THEN ObsOf(res) ELSE @]
                   ELSE A IN
  LET A1 == upd("f", upd("p", upd("m", upd("s", upd("v", acc))))) IN
  [A1 EXCEPT !.nrun = @ + 1,
             !.ndone = @ + (IF a.st = "done" THEN 1 ELSE 0), !.nerror = @ + (IF a.st = "error" THEN 1 ELSE 0),
             !.nunspec = @ + (IF a.st = "unspec" THEN 1 ELSE 0), !.nfuel = @ + (IF a.st = "fuel" THEN 1 ELSE 0),
             !.nnan = @ + (IF a.hit > 0 THEN 1 ELSE 0),
             !.njobs = @ + Cardinality({q \in 1..6 : res[q].st # "notrun"}),
             !.steps = @ + res[1].steps + res[2].steps + res[3].steps + res[4].steps + res[5].steps + res[6].steps,
             !.whys = IF a.st = "unspec" THEN AddWhy(@, a.why) ELSE @]

\* ---------------------------------------------------------------- per-expression verdict
Applies(c, x) == CASE x = "v" -> c.ans.vt # "unknown" [] x = "s" -> c.ans.se = 0 [] x = "m" -> c.ans.multi = 0
                   [] x = "p" -> c.ans.pse = 0 [] OTHER -> c.same = 0
Outcome(c, acc, x) == IF ~Applies(c, x) THEN "na" ELSE IF acc.viol[x] > 0 THEN "viol" ELSE IF acc.ok[x] > 0 THEN "ok" ELSE "undecided"
WellFormed(c) ==
  /\ EV!TemplateOk(c.a, c.nx, c.va)
  /\ c.same = 0 => EV!TemplateOk(c.b, c.nx, c.va)
  /\ Len(c.rhos) > 0 /\ \A k \in 1..Len(c.rhos) : EV!RhoOk(c.nx, c.va, c.rhos[k])
\* the relation of Evaluator.tla, stated on the accumulated runs: Sound <=> no V/S/M violation
Line(c, acc, wf) ==
  [id |-> c.id, wf |-> IF wf THEN 1 ELSE 0,
   v |-> Outcome(c, acc, "v"), s |-> Outcome(c, acc, "s"), m |-> Outcome(c, acc, "m"), p |-> Outcome(c, acc, "p"), f |-> Outcome(c, acc, "f"),
   sound |-> IF acc.viol["v"] = 0 /\ acc.viol["s"] = 0 /\ acc.viol["m"] = 0 THEN 1 ELSE 0,
   ok |-> acc.ok, viol |-> acc.viol, expl |-> acc.expl, first |-> acc.first,
   rho |-> LET fr(x) == IF acc.first[x] = 0 THEN <<0, 0, 0>> ELSE c.rhos[acc.first[x]] IN
           [v |-> fr("v"), s |-> fr("s"), m |-> fr("m"), p |-> fr("p"), f |-> fr("f")],
   obs |-> acc.obs,
   nrun |-> acc.nrun, ndone |-> acc.ndone, nerror |-> acc.nerror, nunspec |-> acc.nunspec, nfuel |-> acc.nfuel, nnan |-> acc.nnan,
   njobs |-> acc.njobs, steps |-> acc.steps, whys |-> acc.whys]

\* ---------------------------------------------------------------- the behaviour of one expression
VARIABLES i, k, j, m, hit, res, acc, ph
vars == <<i, k, j, m, hit, res, acc, ph>>
Res0 == <<NoRes, NoRes, NoRes, NoRes, NoRes, NoRes>>

TInit == /\ i \in 1..Len(Cases)
         /\ k = 1 /\ j = 1 /\ hit = 0 /\ res = Res0 /\ acc = Acc0
         /\ IF WellFormed(Cases[i]) THEN ph = "run" /\ m = Init(JobProg(Cases[i], 1, 1), DefaultEnv)
            ELSE ph = "report" /\ m = Init(ProgOf(Cases[i].a), DefaultEnv)

Advance ==
  /\ ph = "run"
  /\ LET c == Cases[i] IN
     LET r == RunSp(JobProg(c, k, j), m, hit, Macro, JobSp(j)) IN
     LET m1 == IF r[1].st = "run" /\ r[1].steps >= Fuel THEN [r[1] EXCEPT !.st = "fuel", !.why = "fuel exhausted"] ELSE r[1] IN
     IF m1.st = "run" THEN m' = m1 /\ hit' = r[2] /\ UNCHANGED <<i, k, j, res, acc, ph>>
     ELSE LET res1 == [res EXCEPT ![j] = ResOf(m1, r[2])] IN
          LET nj == NextJob(c, j, res1) IN
          IF nj <= 6
          THEN /\ j' = nj /\ res' = res1 /\ hit' = 0 /\ m' = Init(JobProg(c, k, nj), DefaultEnv)
               /\ UNCHANGED <<i, k, acc, ph>>
          ELSE /\ acc' = Judge(c, k, res1, acc) /\ res' = Res0 /\ hit' = 0 /\ j' = 1
               /\ IF k < Len(c.rhos)
                  THEN k' = k + 1 /\ m' = Init(JobProg(c, k + 1, 1), DefaultEnv) /\ ph' = ph
                  ELSE k' = k /\ m' = m1 /\ ph' = "report"
               /\ UNCHANGED i
Report == /\ ph = "report"
          /\ EmitLine("VERDICT " \o JsonOf(Line(Cases[i], acc, acc.nrun > 0)))
          /\ ph' = "end"
          /\ UNCHANGED <<i, k, j, m, hit, res, acc>>
TNext == Advance \/ Report
Spec == TInit /\ [][TNext]_vars
=============================================================================
