SPECIFICATION OSpec
INVARIANT Consumed
