CONSTANT DevModuleScopeNotTracked = TRUE
INIT TInit
NEXT TNext
INVARIANT Judge
