----------------------------- MODULE CensusTrace -----------------------------
(* I->S judge for C07: the census of Luau constructs of the input and of the output (counted by the       *)
(* independent parser) is checked against what the rule pipeline promises.                                *)
(*   targets : the constructs the applied rules remove                                                     *)
(*   every targeted construct present in the input is absent from the output; when all lowering rules ran *)
(*   the output is accepted by the strict Lua 5.1 grammar.                                                 *)
EXTENDS Integers, Sequences, TLC, Json, IOUtils
Obs == ndJsonDeserialize(IOEnv.OBS)
VARIABLE i
W == 64
Init == i \in 1..(IF Len(Obs) < W THEN Len(Obs) ELSE W)
Next == i + W <= Len(Obs) /\ i' = i + W
Constructs == {"compound_assign", "continue_stmt", "if_expression", "interpolated_string", "floor_division", "luau_number", "const_decl", "type_syntax", "attributes"}
Targets(o) == {o.targets[k] : k \in 1..Len(o.targets)}
Left(o) == {c \in Targets(o) : o.census_out[c] > 0}
Judge(o) ==
  LET ran == o.status = "ok" /\ o.out_parses IN
  LET removed == ran /\ Left(o) = {} IN
  LET strict == (~o.all_rules) \/ (ran /\ o.strict51) IN
  [id |-> o.id, ok |-> removed /\ strict, removed |-> removed, strict |-> strict, ran |-> ran,
   nontrivial |-> \E c \in Targets(o) : o.census_in[c] > 0,
   left |-> IF ran THEN (IF Left(o) = {} THEN "" ELSE CHOOSE c \in Left(o) : TRUE) ELSE "not-run"]
Emit == PrintT("VERDICT " \o ToJson(Judge(Obs[i])))
=============================================================================
