INIT TInit
NEXT TNext
CHECK_DEADLOCK FALSE
