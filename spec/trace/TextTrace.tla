----------------------------- MODULE TextTrace -----------------------------
(* I->S judge for the text-level properties.  Every observation carries the bytes of the   *)
(* source (srcb) and of what darklua wrote (outb); both are lexed by the reference lexer   *)
(* LuaLex and the clause of the property selected by `kind` is evaluated:                  *)
(*   identity         (C03) out = in, byte for byte (inside the type regions `tspans`:      *)
(*                          up to parentheses and spacing)                                  *)
(*   remove_comments  (C18) same code tokens; exactly the comments not matching `except`    *)
(*                          disappear                                                       *)
(*   remove_spaces    (C18) same code tokens; same comments                                 *)
(*   append           (C18) same code tokens; exactly one new comment, first (start) or     *)
(*                          last (end), containing the text; with `end` no code token       *)
(*                          changes line, with `start` all shift by the same amount         *)
(*   code             (C04/C12 helpers) same code tokens                                    *)
EXTENDS LuaLex, Bytes, Json, IOUtils, FiniteSets
Obs == ndJsonDeserialize(IOEnv.OBS)
VARIABLE i
\* W chains of observations (i, i + W, i + 2W, ...): successor states are evaluated by TLC's workers in parallel,
\* whereas initial states are evaluated by one thread only
W == 64
Init == i \in 1..(IF Len(Obs) < W THEN Len(Obs) ELSE W)
Next == i + W <= Len(Obs) /\ i' = i + W

CodeView(r) == LET c == Code(r) IN [j \in 1..Len(c) |-> <<c[j].k, c[j].v>>]
CommentsOf(r) == LET c == SelectSeq(r.toks, LAMBDA t : t.k = "comment") IN [j \in 1..Len(c) |-> c[j].v]
\* line of each code token (1 + number of LF bytes before it), computed in one pass over the text
RECURSIVE LinesAcc(_, _, _, _, _, _)
LinesAcc(b, c, j, from, line, acc) ==
  IF j > Len(c) THEN acc
  ELSE LET ln == line + CountByte(b, from, c[j].p - 1, 10) IN LinesAcc(b, c, j + 1, c[j].p, ln, Append(acc, ln))
LinesOf(b, r) == LinesAcc(b, Code(r), 1, 1, 1, <<>>)

HasPrefix(h, n) == Len(h) >= Len(n) /\ SubSeq(h, 1, Len(n)) = n
Contains(h, n) == \E k \in 1..(Len(h) - Len(n) + 1) : SubSeq(h, k, k + Len(n) - 1) = n
\* `except` patterns are restricted to literals, optionally anchored at the start (^lit): regex semantics are then plain
\* ... and case-insensitive when written `(?i)lit` (an inline flag belongs to the pattern it is written in, never to the others)
Lower(b) == [k \in 1..Len(b) |-> IF b[k] >= 65 /\ b[k] <= 90 THEN b[k] + 32 ELSE b[k]]
MatchesPat(pat, lexeme) ==
  LET lx == IF pat.ci = 1 THEN Lower(lexeme) ELSE lexeme IN
  LET lt == IF pat.ci = 1 THEN Lower(pat.lit) ELSE pat.lit IN
  IF pat.anchored = 1 THEN HasPrefix(lx, lt) ELSE Contains(lx, lt)
Kept(o, lexeme) == \E k \in 1..Len(o.except) : MatchesPat(o.except[k], lexeme)
RECURSIVE Filter(_, _, _)
Filter(o, cs, j) == IF j > Len(cs) THEN <<>> ELSE (IF Kept(o, cs[j]) THEN <<cs[j]>> ELSE <<>>) \o Filter(o, cs, j + 1)

\* ---- C04: markers.  A string token whose value is L<digits>... claims to sit on line <digits> (+ a uniform shift)
IsDig(c) == c >= 48 /\ c <= 57
RECURSIVE DigitsVal(_, _, _)
DigitsVal(v, k, acc) == IF k <= Len(v) /\ IsDig(v[k]) THEN DigitsVal(v, k + 1, acc * 10 + (v[k] - 48)) ELSE acc
\* a marker is exactly L<digits>s<digits> (line, unique slot): a literal that a rule folded into a longer string is new code
RECURSIVE SkipDigits(_, _)
SkipDigits(v, k) == IF k <= Len(v) /\ IsDig(v[k]) THEN SkipDigits(v, k + 1) ELSE k
IsMarker(t) == /\ t.k = "str" /\ Len(t.v) >= 4 /\ t.v[1] = 76 /\ IsDig(t.v[2])
               /\ LET k == SkipDigits(t.v, 2) IN k < Len(t.v) /\ t.v[k] = 115 /\ IsDig(t.v[k + 1]) /\ SkipDigits(t.v, k + 1) = Len(t.v) + 1
RECURSIVE LessBytesFrom(_, _, _)
LessBytesFrom(x, y, n) == IF n > Len(y) THEN FALSE ELSE IF n > Len(x) THEN TRUE ELSE IF x[n] # y[n] THEN x[n] < y[n] ELSE LessBytesFrom(x, y, n + 1)
LessBytes(x, y) == LessBytesFrom(x, y, 1)
\* ---- C04: names.  An identifier that occurs k times in the source and k times in the output is ORIGINAL code (no rule
\* added or removed an occurrence): its i-th occurrence must still be on the line of the i-th occurrence in the source
\* (+ the uniform shift).  Switched off (o.names = 0) for pipelines that rename identifiers.
\* identifiers that rules SYNTHESISE (math.floor of remove_floor_division, string.format / tostring of
\* remove_interpolated_string, self of remove_method_definition ...): an occurrence removed by one rule and another created by
\* a second rule would look like one surviving occurrence; these names are not judged
RuleVocabulary == {BytesOf("math"), BytesOf("floor"), BytesOf("string"), BytesOf("format"), BytesOf("tostring"), BytesOf("self"), BytesOf("select"),
                   BytesOf("table"), BytesOf("unpack"), BytesOf("_")}
NameLines(c, lines, v) == LET idx == SelectSeq([j \in 1..Len(c) |-> j], LAMBDA j : c[j].k = "name" /\ c[j].v = v) IN [n \in 1..Len(idx) |-> lines[idx[n]]]
MovedNames(o, ca, la, cb, lb) ==
  LET names == {ca[j].v : j \in {j \in 1..Len(ca) : ca[j].k = "name"}} \ RuleVocabulary IN
  {v \in names : LET x == NameLines(ca, la, v) IN LET y == NameLines(cb, lb, v) IN
                   Len(x) = Len(y) /\ \E n \in 1..Len(x) : y[n] # x[n] + o.shift}
JudgeMarkers(o) ==
  LET b == Lex(o.outb, TRUE) IN
  LET okrun == o.status = "ok" IN
  LET c == IF okrun /\ b.ok THEN Code(b) ELSE <<>> IN
  LET lines == LinesAcc(o.outb, c, 1, 1, 1, <<>>) IN
  LET a == IF okrun /\ b.ok THEN Lex(o.srcb, TRUE) ELSE [ok |-> FALSE, toks |-> <<>>] IN
  LET ca == IF a.ok THEN Code(a) ELSE <<>> IN
  LET la == IF a.ok THEN LinesAcc(o.srcb, ca, 1, 1, 1, <<>>) ELSE <<>> IN
  LET moved == IF a.ok /\ o.names = 1 THEN MovedNames(o, ca, la, c, lines) ELSE {} IN
  \* skeleton clause: when the pipeline left the token skeleton unchanged (same number of code tokens, the same token at every
  \* position except that identifiers may have been renamed), EVERY token is original code and must be on its line
  LET skeleton == a.ok /\ Len(ca) = Len(c) /\ Len(c) > 0 /\ \A j \in 1..Len(c) : ca[j].k = c[j].k /\ (ca[j].k # "name" => ca[j].v = c[j].v) IN
  LET skel_off == IF skeleton THEN {j \in 1..Len(c) : lines[j] # la[j] + o.shift} ELSE {} IN
  LET ms == {j \in 1..Len(c) : IsMarker(c[j])} IN
  LET onLine(j) == lines[j] = DigitsVal(c[j].v, 2, 0) + o.shift IN
  \* a rule may COPY an expression (the copy is new code): a marker is misplaced only if NO occurrence of it is on its line
  LET off == {j \in ms : ~onLine(j) /\ ~\E k \in ms : c[k].v = c[j].v /\ onLine(k)} IN
  LET first == IF off = {} THEN 0 ELSE CHOOSE j \in off : \A k \in off : j <= k IN
  \* code_equal carries the verdict of the names clause (`moved` lists the identifiers found on another line), comments_ok
  \* the verdict of the skeleton clause
  [id |-> o.id, kind |-> o.kind, status |-> o.status, lex_in |-> TRUE, lex_out |-> b.ok, identical |-> FALSE,
   code_equal |-> moved = {}, comments_ok |-> skel_off = {}, lines_ok |-> okrun /\ b.ok /\ off = {},
   shift |-> IF first = 0 THEN 0 ELSE lines[first] - DigitsVal(c[first].v, 2, 0),
   ok |-> okrun /\ b.ok /\ off = {} /\ moved = {} /\ skel_off = {}, ncode |-> Cardinality(ms), ncomments |-> IF first = 0 THEN 0 ELSE DigitsVal(c[first].v, 2, 0),
   moved |-> LET q == moved IN [k \in 1..Cardinality(q) |-> CHOOSE v \in q : Cardinality({w \in q : LessBytes(w, v)}) = k - 1]]

\* C03, weaker clause: `tspans` lists the byte ranges of the source that are type annotations; there (and only there)
\* parentheses and spacing may be added or removed.  MaskedEq walks both texts: equal bytes are consumed together, a soft
\* byte of the source inside a region may be skipped, a soft byte of the output may be skipped while the source position
\* is inside (or just behind) a region; anything else is a difference.
Soft == {32, 9, 10, 13, 40, 41}
InSpan(o, p) == \E k \in 1..Len(o.tspans) : o.tspans[k][1] <= p /\ p <= o.tspans[k][2]
RECURSIVE MaskedEq(_, _, _)
MaskedEq(o, p, q) ==
  LET a == o.srcb IN LET b == o.outb IN
  IF p > Len(a) /\ q > Len(b) THEN TRUE
  ELSE IF p <= Len(a) /\ q <= Len(b) /\ a[p] = b[q] THEN MaskedEq(o, p + 1, q + 1)
  ELSE IF p <= Len(a) /\ a[p] \in Soft /\ InSpan(o, p) THEN MaskedEq(o, p + 1, q)
  ELSE IF q <= Len(b) /\ b[q] \in Soft /\ (InSpan(o, p) \/ InSpan(o, p - 1)) THEN MaskedEq(o, p, q + 1)
  ELSE FALSE
JudgeIdentity(o) ==
  LET same == o.status = "ok" /\ (o.srcb = o.outb \/ (Len(o.tspans) > 0 /\ MaskedEq(o, 1, 1))) IN
  [id |-> o.id, kind |-> o.kind, status |-> o.status, lex_in |-> TRUE, lex_out |-> TRUE, identical |-> same,
   code_equal |-> same, comments_ok |-> same, lines_ok |-> same, shift |-> 0, ok |-> same, ncode |-> 0, ncomments |-> 0]
JudgeLex(o) ==
  LET a == Lex(o.srcb, TRUE) IN
  LET b == Lex(o.outb, TRUE) IN
  LET okrun == o.status = "ok" IN
  LET same == okrun /\ o.srcb = o.outb IN
  LET code == okrun /\ a.ok /\ b.ok /\ CodeView(a) = CodeView(b) IN
  LET ca == CommentsOf(a) IN LET cb == CommentsOf(b) IN
  LET la == LinesOf(o.srcb, a) IN LET lb == LinesOf(o.outb, b) IN
  LET shift == IF code /\ Len(la) > 0 THEN lb[1] - la[1] ELSE 0 IN
  LET uniform == code /\ \A j \in 1..Len(la) : lb[j] - la[j] = shift IN
  LET comments ==
        IF ~code THEN FALSE
        ELSE IF o.kind = "remove_comments" THEN cb = Filter(o, ca, 1)
        ELSE IF o.kind = "remove_spaces" THEN cb = ca
        ELSE IF o.kind = "append" THEN
             IF Len(o.text) = 0 THEN cb = ca
             ELSE IF o.location = "start" THEN Len(cb) = Len(ca) + 1 /\ SubSeq(cb, 2, Len(cb)) = ca /\ Contains(cb[1], o.text)
             ELSE \/ Len(cb) = Len(ca) + 1 /\ SubSeq(cb, 1, Len(ca)) = ca /\ Contains(cb[Len(cb)], o.text)
                  \* appended right after a trailing line comment: the text simply extends that comment
                  \/ Len(cb) = Len(ca) /\ Len(ca) > 0 /\ SubSeq(cb, 1, Len(ca) - 1) = SubSeq(ca, 1, Len(ca) - 1)
                     /\ HasPrefix(cb[Len(cb)], ca[Len(ca)]) /\ Contains(cb[Len(cb)], o.text)
        ELSE TRUE IN
  LET lines ==
        IF o.kind = "append" THEN (IF o.location = "end" \/ Len(o.text) = 0 THEN uniform /\ shift = 0 ELSE uniform)
        ELSE TRUE IN
  LET ok == IF o.kind = "identity" THEN same ELSE (code /\ comments /\ lines) IN
  [id |-> o.id, kind |-> o.kind, status |-> o.status, lex_in |-> a.ok, lex_out |-> b.ok, identical |-> same,
   code_equal |-> code, comments_ok |-> comments, lines_ok |-> lines, shift |-> shift, ok |-> ok,
   ncode |-> Len(Code(a)), ncomments |-> Len(ca)]
Judge(o) == IF o.kind = "identity" THEN JudgeIdentity(o) ELSE IF o.kind = "markers" THEN JudgeMarkers(o) ELSE JudgeLex(o)
Emit == PrintT("VERDICT " \o ToJson(Judge(Obs[i])))
=============================================================================
