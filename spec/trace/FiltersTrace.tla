---------------------------- MODULE FiltersTrace ----------------------------
(* I->S validation for C20.  Every observation recorded by `dlv filters` from the real              *)
(* darklua_core::process is judged against Filters, file by file:                                   *)
(*   selected   the output of the file is the output of the UNFILTERED pipeline made of exactly the *)
(*              rules k with RuleRuns(cfg, k, file) -- i.e. rule k ran on the file iff the          *)
(*              top-level filter and the rule's filter select it, and nothing else changed          *)
(*   deletion   for every rule k that the filters exclude on the file, the output equals the        *)
(*              output of the same (filtered) configuration with rule k deleted                     *)
(*   others     for every rule k, deleting k changes nothing but k's own effect on the file         *)
(* A file excluded by the TOP-LEVEL filter must not be transformed: its output is its source, or    *)
(* is absent (whether an untransformed file is copied to the output directory is C11's business,    *)
(* finding F-C11-a); absent outputs are counted.                                                    *)
(* The reference outputs must be pairwise different (each rule's effect independently observable),  *)
(* otherwise the observation is reported as vacuous.                                                *)
EXTENDS Filters, Json, IOUtils

Obs == ndJsonDeserialize(IOEnv.OBS)
VARIABLE i
Init == i \in 1..Len(Obs)
Next == UNCHANGED i

PatsOf(l) == [k \in DOMAIN l.pats |-> l.pats[k].segs]
CfgOf(o) == [apply |-> PatsOf(o.top.apply), skip |-> PatsOf(o.top.skip),
             rules |-> [k \in 1..3 |-> [on |-> TRUE, apply |-> PatsOf(o.rules[k].apply), skip |-> PatsOf(o.rules[k].skip)]]]
Bit(k) == IF k = 1 THEN 1 ELSE IF k = 2 THEN 2 ELSE 4
RECURSIVE Sum(_)
Sum(S) == IF S = {} THEN 0 ELSE LET k == CHOOSE x \in S : TRUE IN Bit(k) + Sum(S \ {k})
Mask(S) == Sum(S) + 1                                            \* index into f.ref (1-based)

JudgeFile(cfg, f) ==
  LET root == ShouldApply(f.segs, cfg.apply, cfg.skip) IN
  LET ran == RanSet(cfg, f.segs) IN
  LET distinct == \A a, b \in 1..8 : a # b => f.ref[a] # f.ref[b] IN
  LET untouched == f.ref[1] = f.src IN                            \* no rule, retain_lines: the identity
  LET selected == IF root THEN f.out = f.ref[Mask(ran)] ELSE (f.out = "!missing" \/ f.out = f.src) IN
  LET deletion == \A k \in 1..3 : ~RuleRuns(cfg, k, f.segs) => f.outdel[k] = f.out IN
  LET others == \A k \in 1..3 : IF root THEN f.outdel[k] = f.ref[Mask(ran \ {k})] ELSE (f.outdel[k] = "!missing" \/ f.outdel[k] = f.src) IN
  [s |-> f.s, root |-> root, ran |-> [k \in 1..3 |-> k \in ran], vacuous |-> ~(distinct /\ untouched),
   selected |-> selected, deletion |-> deletion, others |-> others, missing |-> (f.out = "!missing")]

Judge == LET o == Obs[i] IN LET cfg == CfgOf(o) IN
  LET fv == [k \in DOMAIN o.files |-> JudgeFile(cfg, o.files[k])] IN
  PrintT("VERDICT " \o ToJson([id |-> o.id,
     ok |-> (\A k \in DOMAIN fv : fv[k].selected /\ fv[k].deletion /\ fv[k].others /\ ~fv[k].vacuous) /\ o.errors = "" /\ o.panic = "",
     clean |-> (o.errors = "" /\ o.panic = "" /\ o.ref_errors = "" /\ o.del_errors = ""),
     files |-> fv]))
=============================================================================
