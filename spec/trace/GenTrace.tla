------------------------------ MODULE GenTrace ------------------------------
(* I->S judge of C02.  One observation per tree (dlv gen): the texts the dense / readable /  *)
(* token-based generators wrote for it (identical texts merged), the expected code-token      *)
(* sequence computed from the tree alone, and -- for operator trees of MC_LuaOps -- the tree. *)
(* Every text is lexed by the reference lexer LuaLex (Luau mode) and these clauses are        *)
(* decided HERE:                                                                              *)
(*   lex_ok    the text is lexically valid (a line break inside a short string or an          *)
(*             interpolated literal, a malformed numeral such as `1..x` ... make it invalid)  *)
(*   toks_ok   the code-token stream is exactly the expected one: same names, keywords and    *)
(*             symbols in order, string tokens with the same VALUE, number tokens with the    *)
(*             same double (IEEE754!FOfDecimal of the written numeral) -- two tokens fusing    *)
(*             into another token, or a token splitting, changes the stream.  Parentheses,    *)
(*             commas and semicolons are skipped on the lexed side (the expected sequence has *)
(*             none): where they go is the structural clause.                                 *)
(*   nl_ok     no line break between a called expression and the `(` of its arguments (the    *)
(*             expected sequence carries a CALL marker in front of every argument list): both *)
(*             reference parsers reject `f <newline> (x)` as ambiguous                        *)
(*   parse_ok  (operator trees only) LuaOps!Parse -- the reference precedence-climbing parser -- *)
(*             applied to the lexed tokens gives back the tree                                *)
(*   model_ok  (operator trees only; DRIFT, not a verdict) the lexed tokens are exactly       *)
(*             LuaOps!Unparse(tree), i.e. the transcribed printer still describes the code    *)
(* struct_ok (same statements / nesting / call shapes, by the independent parser luaparse +   *)
(* astjson!same_structure in the harness) is passed through.                                  *)
EXTENDS LuaLex, LuaOps, IEEE754, Bytes, LuaStr, Json, FiniteSets
Obs == ndJsonDeserialize(IOEnv.OBS)
VARIABLE i
W == 64
Init == i \in 1..(IF Len(Obs) < W THEN Len(Obs) ELSE W)
Next == i + W <= Len(Obs) /\ i' = i + W

B(s) == BytesOf(s)
\* `elseif` is compared as `else` `if` (the flat node table nests if-expressions)
RECURSIVE SplitElseIf(_, _)
SplitElseIf(c, j) ==
  IF j > Len(c) THEN <<>>
  ELSE IF c[j].k = "kw" /\ c[j].v = B("elseif")
       THEN <<[c[j] EXCEPT !.v = B("else")], [c[j] EXCEPT !.v = B("if")]>> \o SplitElseIf(c, j + 1)
       ELSE <<c[j]>> \o SplitElseIf(c, j + 1)
Skippable(t) == t.k = "sym" /\ t.v \in {<<40>>, <<41>>, <<44>>, <<59>>}
IsSym(t, ch) == t.k = "sym" /\ t.v = <<ch>>
\* is there a line break in the white space directly before position p?
RECURSIVE NlBefore(_, _)
NlBefore(b, p) == IF p <= 1 THEN FALSE
                  ELSE IF b[p - 1] \in {10, 13} THEN TRUE
                  ELSE IF IsSpace(b[p - 1]) THEN NlBefore(b, p - 1) ELSE FALSE
NumValue(v) == FOfDecimal(StrOf(v))
SameTok(t, o, j) ==
  /\ t.k = o.tk[j]
  /\ CASE t.k = "num" -> NumValue(t.v) = <<o.thi[j], o.tlo[j]>>
       [] t.k = "interp" -> TRUE
       [] OTHER -> t.v = B(o.tv[j])
\* walk the lexed tokens c (from index a) against the expected tokens of o (from index j)
RECURSIVE Walk(_, _, _, _, _, _)
Walk(b, c, o, a, j, nl) ==
  IF j <= Len(o.tk) /\ o.tk[j] = "CALL"
  THEN (IF a <= Len(c) /\ IsSym(c[a], 41) THEN Walk(b, c, o, a + 1, j, nl)
        ELSE IF a <= Len(c) /\ IsSym(c[a], 40) THEN Walk(b, c, o, a + 1, j + 1, nl /\ ~NlBefore(b, c[a].p))
        ELSE Walk(b, c, o, a, j + 1, nl))
  ELSE IF a <= Len(c) /\ Skippable(c[a]) THEN Walk(b, c, o, a + 1, j, nl)
  ELSE IF a > Len(c) THEN [ok |-> j > Len(o.tk), at |-> a, nl |-> nl]
  ELSE IF j > Len(o.tk) THEN [ok |-> FALSE, at |-> a, nl |-> nl]
  ELSE IF SameTok(c[a], o, j) THEN Walk(b, c, o, a + 1, j + 1, nl)
  ELSE [ok |-> FALSE, at |-> a, nl |-> nl]

\* ---- operator trees: lexed tokens -> LuaOps tokens
TokIs(c, j, k, s) == j <= Len(c) /\ c[j].k = k /\ c[j].v = B(s)
RECURSIVE MapToks(_, _)
MapToks(c, j) ==
  IF j > Len(c) THEN <<>>
  ELSE LET t == c[j] IN
    IF TokIs(c, j, "name", "f") /\ TokIs(c, j + 1, "sym", "(") /\ TokIs(c, j + 2, "sym", ")") THEN <<"call">> \o MapToks(c, j + 3)
    ELSE IF TokIs(c, j, "kw", "function") /\ TokIs(c, j + 1, "sym", "(") /\ TokIs(c, j + 2, "sym", ")") /\ TokIs(c, j + 3, "kw", "end")
         THEN <<"fn">> \o MapToks(c, j + 4)
    ELSE IF TokIs(c, j, "sym", "{") /\ TokIs(c, j + 1, "sym", "}") THEN <<"tab">> \o MapToks(c, j + 2)
    ELSE IF TokIs(c, j, "kw", "if") /\ TokIs(c, j + 1, "name", "c") /\ TokIs(c, j + 2, "kw", "then") /\ TokIs(c, j + 3, "name", "a")
            /\ TokIs(c, j + 4, "kw", "else") THEN <<"if">> \o MapToks(c, j + 5)
    ELSE IF TokIs(c, j, "sym", "::") /\ TokIs(c, j + 1, "name", "T") THEN <<"::T">> \o MapToks(c, j + 2)
    ELSE IF TokIs(c, j, "name", "x") THEN <<"x">> \o MapToks(c, j + 1)
    ELSE IF t.k = "num" THEN <<"n">> \o MapToks(c, j + 1)
    ELSE IF t.k = "str" THEN <<"s">> \o MapToks(c, j + 1)
    ELSE IF TokIs(c, j, "sym", "...") THEN <<"va">> \o MapToks(c, j + 1)
    ELSE IF t.k = "sym" \/ (t.k = "kw" /\ t.v \in {B("and"), B("or"), B("not")}) THEN <<StrOf(t.v)>> \o MapToks(c, j + 1)
    ELSE <<"?">> \o MapToks(c, j + 1)

JudgeText(o, x) ==
  IF x.status # "ok" THEN [ok |-> FALSE, lex_ok |-> FALSE, toks_ok |-> FALSE, nl_ok |-> FALSE, parse_ok |-> FALSE, model_ok |-> FALSE, at |-> 0]
  ELSE
  LET b == B(x.out) IN
  LET r == Lex(b, TRUE) IN
  LET c == IF r.ok THEN SplitElseIf(Code(r), 1) ELSE <<>> IN
  LET w == IF r.ok /\ o.tokcheck THEN Walk(b, c, o, 1, 1, TRUE) ELSE [ok |-> TRUE, at |-> 0, nl |-> TRUE] IN
  LET m == IF r.ok /\ o.optree /\ TokIs(c, 1, "kw", "return") THEN MapToks(c, 2) ELSE <<"?">> IN
  LET pok == ~o.optree \/ (r.ok /\ Norm(Parse(m)) = Norm(o.tree)) IN
  LET mok == ~o.optree \/ (r.ok /\ m = Unparse(o.tree)) IN
  [ok |-> r.ok /\ w.ok /\ w.nl /\ pok /\ x.struct_ok, lex_ok |-> r.ok, toks_ok |-> w.ok, nl_ok |-> w.nl, parse_ok |-> pok,
   model_ok |-> mok, at |-> w.at]
Judge(o) == [id |-> o.id, v |-> [k \in 1..Len(o.texts) |-> JudgeText(o, o.texts[k])]]
Emit == EmitLine("VERDICT " \o JsonOf(Judge(Obs[i])))
=============================================================================
