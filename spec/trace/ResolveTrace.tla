---------------------------- MODULE ResolveTrace ----------------------------
(* I->S validation for C15: every observation recorded from the real bundler and the real  *)
(* convert_require rule must agree with the documented resolution (Resolve!DocResolve):    *)
(*   - what the bundler resolved          = DocResolve(current mode, request)              *)
(*   - the converted request, resolved BY THE SPECIFICATION under the target mode,         *)
(*     and what the real bundler resolved it to, are both the original target.             *)
EXTENDS Resolve, Json, IOUtils

Obs == ndJsonDeserialize(IOEnv.OBS)
Aliases == [x \in {"@pkg"} |-> <<Seg("lib", "")>>]

VARIABLE i
Init == i \in 1..Len(Obs)
Next == UNCHANGED i

ToPath(js) == [k \in 1..Len(js) |-> Seg(js[k].stem, js[k].ext)]
FsOf(o) == {ToPath(o.fsp[k]) : k \in 1..Len(o.fsp)}
Mfn(o) == Seg(o.mfnp.stem, o.mfnp.ext)
GotOf(s, p) == IF s = "!notfound" THEN NotFound ELSE IF Len(s) > 0 /\ SubSeq(s, 1, 1) = "!" THEN <<Seg(s, "")>> ELSE ToPath(p)

Expected(o) == DocResolve(o.mode, ToPath(o.reqp), ToPath(o.srcp), FsOf(o), Aliases, Mfn(o))
ResolveOK(o) == GotOf(o.got, o.gotp) = Expected(o)
SpecReresolve(o) == DocResolve(o.target, ToPath(o.newreqp), ToPath(o.srcp), FsOf(o), Aliases, Mfn(o))
ConvertOK(o) == o.conv = 1 => /\ Len(o.newreq) > 0 /\ SubSeq(o.newreq, 1, 1) # "!"
                              /\ SpecReresolve(o) = Expected(o)
                              /\ GotOf(o.got2, o.got2p) = Expected(o)

PathStr(p) == IF p = <<>> THEN "." ELSE
  LET F[k \in 1..Len(p)] == IF k = 1 THEN Full(p[1]) ELSE F[k - 1] \o "/" \o Full(p[k]) IN F[Len(p)]

\* trigger of the conversion finding: the request names the module-folder file or carries a lua(u) extension explicitly,
\* and stripping that tail exposes a candidate of higher precedence that exists in the layout
StripShadow(o) ==
  LET f == Expected(o) IN
  /\ f # NotFound
  /\ LET g == GenerateUnchecked(o.target, f, ToPath(o.srcp), Aliases, Mfn(o)) IN
     LET h == HeadOf(o.target, g, ToPath(o.srcp), Aliases, Mfn(o)) IN
     LET cs == Candidates(Normalize(h, TRUE), FolderName(o.target, Mfn(o))) IN
     \E a, b \in 1..Len(cs) : a < b /\ Canon(cs[b]) = f /\ Canon(cs[a]) \in FsOf(o)

Judge == LET o == Obs[i] IN
  PrintT("VERDICT " \o ToJson([id |-> o.id, resolve_ok |-> ResolveOK(o), convert_ok |-> ConvertOK(o),
                               expected |-> PathStr(Expected(o)), got |-> o.got,
                               newreq |-> o.newreq, got2 |-> o.got2,
                               spec_reresolved |-> IF o.conv = 1 /\ ConvertOK(o) = FALSE /\ Len(o.newreq) > 0 /\ SubSeq(o.newreq, 1, 1) # "!" THEN PathStr(SpecReresolve(o)) ELSE "",
                               strip_shadow |-> IF o.conv = 1 THEN StripShadow(o) ELSE FALSE,
                               target_has_ext |-> LET e == Expected(o) IN e # NotFound /\ Last(e).ext # ""]))
=============================================================================
