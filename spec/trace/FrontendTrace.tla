--------------------------- MODULE FrontendTrace ---------------------------
(* I->S: validates traces recorded from the REAL WorkerTree (harness/src/frontend.rs)  *)
(* against the code-shaped Frontend model (deviation flags of the OPEN findings on).   *)
(* Every event must be an enabled action; after every `process` the recorded output    *)
(* tree must equal the model's.  Independently of the model's internal state, the      *)
(* OBSERVABLE clauses of C10 are evaluated on the recorded data in every state:        *)
(*   - out[s] = what a fresh run writes (model Stamp AND the recorded real fresh run)  *)
(*   - removed sources have no output, foreign files are kept, nothing stray appears   *)
(* and reported per history (variable `bad`), so one failing history does not hide     *)
(* the others.                                                                         *)
EXTENDS FrontendInstance, TLCExt
Rows == ndJsonDeserialize(IOEnv.TRACE)
VARIABLES l, hid, ok
tvars == <<vars, l, hid, ok>>

Ev(name) == l <= Len(Rows) /\ Rows[l].ev = name /\ l' = l + 1
StampOf(r) == [v |-> r.v, c |-> r.c, d |-> {<<r.d[i][1], r.d[i][2]>> : i \in 1..Len(r.d)}]

RECURSIVE NextReset(_)
NextReset(k) == IF k > Len(Rows) THEN k ELSE IF Rows[k].ev = "reset" THEN k ELSE NextReset(k + 1)

TInit == Init /\ l = 2 /\ cfg = Rows[1].c /\ hid = Rows[1].id /\ ok = TRUE /\ Rows[1].ev = "reset"
Done(id, good) == PrintT("HDONE " \o ToJson([id |-> id, explained |-> good]))
TReset == /\ Ev("reset") /\ Done(hid, ok)
          /\ inp' = [f \in Files |-> 1] /\ out' = [s \in Sources |-> NoStamp]
          /\ LET r == AddAll([i \in Idx |-> Vacant], <<>>, Sources) IN slots' = r.sl /\ free' = r.fr
          /\ extmap' = [f \in Files |-> {}] /\ removeq' = {} /\ lasthash' = "none"
          /\ cfg' = Rows[l].c /\ fresh' = FALSE /\ panicked' = FALSE /\ steps' = 0
          /\ hid' = Rows[l].id /\ ok' = TRUE
Keep == UNCHANGED <<hid, ok>> /\ ok
TEdit    == Ev("edit")   /\ Edit(Rows[l].f) /\ inp'[Rows[l].f] = Rows[l].v /\ ~panicked' /\ Keep
TAdd     == Ev("add")    /\ Add(Rows[l].f) /\ inp'[Rows[l].f] = Rows[l].v /\ Keep
TRmFile  == Ev("rmfile") /\ RemoveFile(Rows[l].f) /\ ~panicked' /\ Keep
TRmDir   == Ev("rmdir")  /\ RemoveDir(Rows[l].d) /\ Keep
TConfig  == Ev("config") /\ ChangeConfig /\ cfg' = Rows[l].c /\ Keep
TProcess == /\ Ev("process") /\ Process
            /\ \A s \in Sources : out'[s] = StampOf(Rows[l].out[s])
            /\ Keep
\* the real code panicked inside a notification: the model must be able to panic on that very event
TPanic   == /\ Ev("panic")
            /\ \/ (Rows[l].during = "edit" /\ Edit(Rows[l].f))
               \/ (Rows[l].during = "rmfile" /\ RemoveFile(Rows[l].f))
            /\ panicked' /\ Keep
\* the code-shaped model cannot follow this history: give up on it (explained = FALSE) and resume at the next one
TSkip    == /\ l <= Len(Rows) /\ Rows[l].ev # "reset" /\ ok
            /\ l' = NextReset(l) /\ ok' = FALSE /\ UNCHANGED <<vars, hid>>
TNext == TReset \/ TEdit \/ TAdd \/ TRmFile \/ TRmDir \/ TConfig \/ TProcess \/ TPanic \/ TSkip
TSpec == TInit /\ [][TNext]_tvars

\* the last history has no following reset: report it when the end of the trace is reached
EmitLast == (l = Len(Rows) + 1) => Done(hid, ok)
=============================================================================
