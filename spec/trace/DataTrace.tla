----------------------------- MODULE DataTrace -----------------------------
(* I->S validation for C14. Every case is the Lua text the real darklua emitted for one     *)
(* document (read by the independent parser into a node table) together with the datum the  *)
(* document was rendered from. TLC runs the program with the executable semantics (LuaSem,  *)
(* macro-steps of 250) and judges DataConv!LuaEq(returned value, datum) on the final heap:  *)
(* full depth, exact key sets, byte-identical strings, nearest doubles.                     *)
(* One raw line per case:  VERDICT {id, ok, st, why, nret, where, negzero, steps}           *)
EXTENDS DataConv, Json, IOUtils

Cases == ndJsonDeserialize(IOEnv.CASES)
Fuel == 200000
Macro == 250
ProgOf(p) == [root |-> p.root, nodes |-> p.nodes, req |-> <<>>]

VARIABLES i, mm, phase
tvars == <<i, mm, phase>>
TInit == /\ i \in 1..Len(Cases)
         /\ mm = Init(ProgOf(Cases[i].prog), DefaultEnv)
         /\ phase = "run"
Advance == /\ phase = "run"
           /\ IF mm.st = "run"
              THEN /\ mm' = (IF mm.steps >= Fuel THEN [mm EXCEPT !.st = "fuel"] ELSE Run(ProgOf(Cases[i].prog), mm, Macro))
                   /\ phase' = phase
              ELSE /\ mm' = mm /\ phase' = "report"
           /\ UNCHANGED i
\* Finish leaves the control record untouched: after `done`, mm.ctl.vs still holds the raw returned values
Returned == IF mm.st = "done" /\ mm.ctl.m = "R" THEN mm.ctl.vs ELSE <<>>
Ok == /\ mm.st = "done"
      /\ Len(Returned) = 1
      /\ LuaEq(mm, Returned[1], Cases[i].d)
Line == [id |-> Cases[i].id, ok |-> Ok, st |-> mm.st, why |-> mm.why, nret |-> Len(Returned),
         where |-> IF mm.st = "done" /\ Len(Returned) = 1 THEN Mismatch(mm, Returned[1], Cases[i].d, "") ELSE "",
         negzero |-> mm.st = "done" /\ Len(Returned) = 1 /\ NegZeroLost(mm, Returned[1], Cases[i].d),
         steps |-> mm.steps]
Report == /\ phase = "report"
          /\ EmitLine("VERDICT " \o JsonOf(Line))
          /\ phase' = "done"
          /\ UNCHANGED <<i, mm>>
TNext == Advance \/ Report
=============================================================================
