---------------------------- MODULE LiteralTrace ----------------------------
(* I->S judge of C13.  One observation per literal (dlv literals): the texts the three        *)
(* generators wrote for it in each neighbour context.  Decided HERE, with the reference lexer  *)
(* LuaLex and the IEEE-754 primitives:                                                        *)
(*  strings  in every context the code-token stream of the text, lexed with LUAU rules, is    *)
(*           the context's template around ONE string token whose decoded value is exactly    *)
(*           the original bytes; the same with LUA 5.1 rules unless the value is valid UTF-8   *)
(*           with a non-ASCII character (the writer then uses the Luau-only unicode escape:    *)
(*           exempt, as the property says)                                                    *)
(*  numbers  the tokens X written for the number in `return X` evaluate -- numeral by          *)
(*           FOfDecimal (decimal / 0x / 0b / underscores), `-` by FNeg, `(a/b)` by FDiv -- to  *)
(*           the bit-identical double (sign of zero, infinities, one canonical NaN); every     *)
(*           other context is its template around the same tokens X (no fusion with `..`,      *)
(*           `-`, `[`, `(`, `=` ...)                                                           *)
(*  parse    a spelling darklua's parser accepted has the value FOfDecimal(spelling); hex and  *)
(*           binary literals that need more than 64 bits are undecided (Luau saturates, see    *)
(*           harness/luaparse number.rs)                                                      *)
(*  src      a string literal of the SOURCE that darklua's parser accepted has the value the     *)
(*           reference lexer gives it under Luau rules (every escape, `\z`, long brackets)       *)
(*  model_ok (DRIFT, strings) the text contains exactly Literals!WriteString(value)           *)
EXTENDS Literals, IEEE754, LuaStr, Json, IOUtils, FiniteSets
Obs == ndJsonDeserialize(IOEnv.OBS)
VARIABLE i
W == 64
Init == i \in 1..(IF Len(Obs) < W THEN Len(Obs) ELSE W)
Next == i + W <= Len(Obs) /\ i' = i + W

B(s) == BytesOf(s)
KW(w) == <<"kw", B(w)>>
NM(w) == <<"name", B(w)>>
SY(w) == <<"sym", B(w)>>
\* code tokens as <<kind, value>> pairs, commas dropped (the readable generator writes a trailing comma in tables)
View(r) == LET c == SelectSeq(Code(r), LAMBDA t : ~(t.k = "sym" /\ t.v = <<44>>)) IN [j \in 1..Len(c) |-> <<c[j].k, c[j].v>>]
Template(kind, ctx, X) ==
  CASE ctx = "ret"   -> <<KW("return")>> \o X
    [] ctx = "from"  -> <<KW("return")>> \o X
    [] ctx = "call"  -> <<KW("return"), NM("f"), SY("(")>> \o X \o <<SY(")")>>
    [] ctx = "index" -> <<KW("return"), NM("t"), SY("[")>> \o X \o <<SY("]")>>
    [] ctx = "key"   -> <<KW("return"), SY("{"), SY("[")>> \o X \o <<SY("]"), SY("=")>> \o X \o <<SY("}")>>
    [] ctx = "op"    -> <<KW("return")>> \o X \o <<IF kind = "str" THEN SY("..") ELSE SY("+")>> \o X
    [] ctx = "cat"   -> <<KW("return")>> \o X \o <<SY("..")>> \o X
    [] ctx = "sugar" -> <<KW("return"), NM("f")>> \o X
    [] ctx = "neg"   -> <<KW("return"), SY("-")>> \o X

\* ---- strings
JudgeStr(o) ==
  LET S == B(o.b) IN
  LET X == <<<<"str", S>>>> IN
  LET exempt == NeedsUnicodeEscape(S) IN
  LET model == WriteString(S) IN
  LET model1 == WriteStringOneLine(S) IN        \* what the token-based generator writes
  LET HasTok(x) == \E k \in 1..Len(x.gens) : x.gens[k] = "token" IN
  LET HasOther(x) == \E k \in 1..Len(x.gens) : x.gens[k] # "token" IN
  LET one(x) ==
        IF x.status # "ok" THEN [luau |-> FALSE, l51 |-> FALSE, model |-> FALSE]
        ELSE LET b == B(x.out) IN LET a == Lex(b, TRUE) IN LET c == Lex(b, FALSE) IN
             [luau |-> a.ok /\ View(a) = Template("str", x.ctx, X),
              l51  |-> exempt \/ (c.ok /\ View(c) = Template("str", x.ctx, X)),
              model |-> (HasOther(x) => ContainsSeq(b, model)) /\ (HasTok(x) => ContainsSeq(b, model1))] IN
  LET v == [k \in 1..Len(o.outs) |-> one(o.outs[k])] IN
  LET bad == {k \in 1..Len(v) : ~(v[k].luau /\ v[k].l51)} IN
  [id |-> o.id, kind |-> o.kind, ok |-> bad = {}, n |-> Len(v), okv |-> [k \in 1..Len(v) |-> k \notin bad],
   luau_ok |-> \A k \in 1..Len(v) : v[k].luau, l51_ok |-> \A k \in 1..Len(v) : v[k].l51, exempt51 |-> exempt,
   value_ok |-> bad = {}, model_ok |-> \A k \in 1..Len(v) : v[k].model, undecided |-> FALSE]

\* ---- numbers
Val(t) == FOfDecimal(StrOf(t[2]))
IsNum(t) == t[1] = "num"
IsS(t, ch) == t = <<"sym", <<ch>>>>
NoValue == <<-1, -1, -1>>          \* not a double: three words
\* [ ( ] [ - ] num [ / num ] [ ) ]
EvalCore(X) ==
  LET neg == Len(X) >= 1 /\ IsS(X[1], 45) IN
  LET Y == IF neg THEN SubSeq(X, 2, Len(X)) ELSE X IN
  IF Len(Y) = 1 /\ IsNum(Y[1]) THEN (IF neg THEN FNeg(Val(Y[1])) ELSE Val(Y[1]))
  ELSE IF Len(Y) = 3 /\ IsNum(Y[1]) /\ IsS(Y[2], 47) /\ IsNum(Y[3]) THEN FDiv(IF neg THEN FNeg(Val(Y[1])) ELSE Val(Y[1]), Val(Y[3]))
  ELSE NoValue
EvalX(X) == IF Len(X) >= 2 /\ IsS(X[1], 40) /\ IsS(X[Len(X)], 41) THEN EvalCore(SubSeq(X, 2, Len(X) - 1)) ELSE EvalCore(X)
\* `return L ^ 2` as written: the value of what the text means -- a minus sign in front of an unparenthesised numeral applies
\* to the POWER (`-0 ^ 2` is -(0 ^ 2)), a parenthesised operand is evaluated first
Two == FOfDecimal("2")
EvalPow(v) ==
  IF Len(v) < 4 \/ v[1] # KW("return") \/ ~IsS(v[Len(v) - 1], 94) \/ ~IsNum(v[Len(v)]) \/ Val(v[Len(v)]) # Two THEN NoValue
  ELSE LET L == SubSeq(v, 2, Len(v) - 2) IN
       IF Len(L) >= 2 /\ IsS(L[1], 40) /\ IsS(L[Len(L)], 41) THEN (IF EvalX(L) = NoValue THEN NoValue ELSE FPow(EvalX(L), Two))
       ELSE IF Len(L) = 1 /\ IsNum(L[1]) THEN FPow(Val(L[1]), Two)
       ELSE IF Len(L) = 2 /\ IsS(L[1], 45) /\ IsNum(L[2]) THEN FNeg(FPow(Val(L[2]), Two))
       ELSE NoValue
JudgeNum(o) ==
  LET d == <<o.hi, o.lo>> IN
  LET lexed == [k \in 1..Len(o.outs) |-> IF o.outs[k].status = "ok" THEN Lex(B(o.outs[k].out), TRUE) ELSE [ok |-> FALSE, toks |-> <<>>]] IN
  LET views == [k \in 1..Len(o.outs) |-> IF lexed[k].ok THEN View(lexed[k]) ELSE <<>>] IN
  LET plain == {k \in 1..Len(o.outs) : o.outs[k].ctx = "ret" /\ lexed[k].ok /\ Len(views[k]) >= 2 /\ views[k][1] = KW("return")} IN
  LET Xs == {SubSeq(views[k], 2, Len(views[k])) : k \in plain} IN
  LET good(k) ==
        /\ lexed[k].ok
        /\ IF o.outs[k].ctx \in {"ret", "from"}
           THEN Len(views[k]) >= 2 /\ views[k][1] = KW("return") /\ EvalX(SubSeq(views[k], 2, Len(views[k]))) = d
           ELSE IF o.outs[k].ctx = "pow" THEN EvalPow(views[k]) = FPow(d, Two)
           ELSE \E X \in Xs : views[k] = Template("num", o.outs[k].ctx, X) IN
  LET bad == {k \in 1..Len(o.outs) : ~good(k)} IN
  LET valbad == {k \in bad : o.outs[k].ctx \in {"ret", "from", "pow"}} IN
  [id |-> o.id, kind |-> o.kind, ok |-> bad = {} /\ plain # {}, n |-> Len(o.outs), okv |-> [k \in 1..Len(o.outs) |-> k \notin bad],
   luau_ok |-> \A k \in 1..Len(o.outs) : lexed[k].ok, l51_ok |-> TRUE, exempt51 |-> FALSE,
   value_ok |-> valbad = {} /\ plain # {}, model_ok |-> TRUE, undecided |-> FALSE]

\* ---- parsed spellings
RECURSIVE CountIn(_, _, _)
CountIn(b, p, S) == IF p > Len(b) THEN 0 ELSE (IF b[p] \in S THEN 1 ELSE 0) + CountIn(b, p + 1, S)
RECURSIVE SkipZeros(_, _)
SkipZeros(b, p) == IF p <= Len(b) /\ b[p] \in {48, 95} THEN SkipZeros(b, p + 1) ELSE p
\* hex / binary literal that does not fit 64 bits
Wide(text) ==
  LET b == SelectSeq(B(text), LAMBDA c : c # 95) IN
  IF Len(b) >= 2 /\ b[1] = 48 /\ b[2] \in {120, 88} THEN Len(b) + 1 - SkipZeros(b, 3) > 16
  ELSE IF Len(b) >= 2 /\ b[1] = 48 /\ b[2] \in {98, 66} THEN Len(b) + 1 - SkipZeros(b, 3) > 64
  ELSE FALSE
JudgeParse(o) ==
  LET accepted == o.status = "ok" IN
  LET und == Wide(o.text) IN
  LET same == accepted /\ ~und /\ FOfDecimal(o.text) = <<o.hi, o.lo>> IN
  \* `return <spelling>` through the rule convert_luau_number under each generator (o.conv): the literal written reads back as
  \* the value of the spelling (runs that ended with an error value write nothing and impose nothing)
  LET convs == IF "conv" \in DOMAIN o THEN o.conv ELSE <<>> IN
  LET cgood(c) == c.status # "ok" \/
        LET r == Lex(B(c.out), TRUE) IN
        r.ok /\ Len(View(r)) >= 2 /\ View(r)[1] = KW("return") /\ EvalX(SubSeq(View(r), 2, Len(View(r)))) = FOfDecimal(o.text) IN
  LET convok == ~accepted \/ und \/ \A k \in 1..Len(convs) : cgood(convs[k]) IN
  [id |-> o.id, kind |-> o.kind, ok |-> (~accepted \/ und \/ same) /\ convok, n |-> 1, okv |-> <<(~accepted \/ und \/ same) /\ convok>>,
   luau_ok |-> TRUE, l51_ok |-> TRUE, exempt51 |-> FALSE, value_ok |-> same, model_ok |-> TRUE, undecided |-> und \/ ~accepted]
\* ---- source spellings of strings: the value darklua's reader gave the literal (o.val) is the value the reference lexer
\* (Luau rules) gives it; spellings the reference lexer rejects, or darklua's parser rejects, are undecided (C12's subject)
JudgeSrc(o) ==
  LET accepted == o.status = "ok" IN
  LET r == Lex(B(o.b), TRUE) IN
  LET one == r.ok /\ Len(Code(r)) = 1 /\ Code(r)[1].k = "str" IN
  LET same == accepted /\ one /\ Code(r)[1].v = B(o.val) IN
  [id |-> o.id, kind |-> o.kind, ok |-> ~accepted \/ ~one \/ same, n |-> 1, okv |-> <<~accepted \/ ~one \/ same>>,
   luau_ok |-> TRUE, l51_ok |-> TRUE, exempt51 |-> FALSE, value_ok |-> same, model_ok |-> TRUE, undecided |-> ~accepted \/ ~one]
Judge(o) == IF o.kind = "str" THEN JudgeStr(o) ELSE IF o.kind = "parse" THEN JudgeParse(o) ELSE IF o.kind = "src" THEN JudgeSrc(o) ELSE JudgeNum(o)
Emit == EmitLine("VERDICT " \o JsonOf(Judge(Obs[i])))
=============================================================================
