---------------------------- MODULE RobloxTrace ----------------------------
(* I->S validation of the roblox target mode of convert_require.  Every observation recorded by     *)
(* `dlv roblox` carries its case (the sourcemap tree or the file layout, S, T, style) and the        *)
(* instance path the REAL rule generated, read back by the independent parser.  The judgement is     *)
(* RobloxRequire!EvalFrom on the instance tree the case means:                                       *)
(*   ok        the recorded path, evaluated by Roblox's semantics from every instance of S, denotes  *)
(*             an instance of T                                                                      *)
(*   limit     the named limit of RobloxRequire!Limit that applies to the case ("" = none):          *)
(*             the theorem is  ok \/ limit # ""                                                      *)
(*   model_ok  the recorded path equals what the transcription generates (DRIFT information)         *)
EXTENDS RobloxRequire, Json, IOUtils

Obs == ndJsonDeserialize(IOEnv.OBS)
Stride == 64

VARIABLE i
Init == i \in 1..(IF Len(Obs) < Stride THEN Len(Obs) ELSE Stride)
Next == i + Stride <= Len(Obs) /\ i' = i + Stride

CaseOf(o) ==
  [fam |-> o.fam, cur |-> o.cur, style |-> o.style, files |-> o.filesp, src |-> o.srcp, tgt |-> o.tgtp,
   sm |-> o.sm, smpath |-> o.smpathp, prefix |-> o.prefix,
   nodes |-> [k \in 1..Len(o.nodes) |-> [name |-> o.nodes[k].name, cls |-> o.nodes[k].cls, parent |-> o.nodes[k].parent,
                                         files |-> o.nodes[k].filesp]],
   order |-> o.order]

StatusClass(s) == IF s \in {"ok", "unchanged"} THEN s ELSE IF Len(s) >= 5 /\ SubSeq(s, 1, 5) = "panic" THEN "panic" ELSE "error"
Describe(tree, v) == IF v = Nil THEN "nil" ELSE IF v = Err THEN "an error / no instance"
                     ELSE "node " \o ToString(v) \o " (" \o tree[v].name \o ")"

Judge ==
  LET o == Obs[i] IN
  LET c == CaseOf(o) IN
  LET tree == TreeOf(c) g == Gen(c) IN
  LET real == [status |-> StatusClass(o.status), root |-> o.root, steps |-> o.steps] IN
  LET so == Owners(c, tree, c.src) to == Owners(c, tree, c.tgt) IN
  LET got == IF real.status = "ok" /\ so # {} THEN EvalFrom(tree, MinOf(so), o.root, o.steps) ELSE Err IN
  LET ok == KeepsTargetWith(c, tree, real) IN
  LET modelOk == /\ g.status = real.status /\ g.root = real.root /\ CanonSteps(g.steps) = CanonSteps(real.steps) IN
  PrintT("VERDICT " \o ToJson(
    [id |-> o.id, ok |-> ok, limit |-> Limit(c), model_ok |-> modelOk,
     got |-> got, want |-> SetToSeqBy(to),
     why |-> IF ok THEN ""
             ELSE IF real.status # "ok" THEN "the require was not converted (" \o real.status \o ")"
             ELSE IF so = {} THEN "the requiring file has no instance"
             ELSE "evaluates to " \o Describe(tree, got) \o ", the target is " \o
                  (IF to = {} THEN "no instance" ELSE Describe(tree, MinOf(to))),
     suspects |-> IF ok \/ Limit(c) # "" THEN <<>> ELSE Suspects(c),
     mstatus |-> g.status, mroot |-> g.root, msteps |-> g.steps]))
=============================================================================
