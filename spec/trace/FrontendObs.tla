----------------------------- MODULE FrontendObs -----------------------------
(* The OBSERVABLE statement of C10, evaluated on traces recorded from the real WorkerTree,  *)
(* with no model of the worker's internals at all: the only state is what the environment   *)
(* did (which files exist at which version, which configuration is current).  After every  *)
(* `process` event:                                                                          *)
(*   - every source on which a fresh run succeeds has exactly the fresh run's output,        *)
(*   - a source that no longer exists has no output,                                         *)
(*   - foreign files are kept and nothing else appears in the output folder,                 *)
(*   - no call panicked.                                                                     *)
(* The expected output is computed by the specification (Stamp) AND cross-checked against    *)
(* the real fresh run recorded by the driver; a disagreement there is a tool error.          *)
EXTENDS FrontendUniverse, TLCExt
Rows == ndJsonDeserialize(IOEnv.TRACE)
VARIABLES oi, oc, l, hid
ovars == <<oi, oc, l, hid>>
Files2 == MC_Sources \cup MC_Modules
NoV == -1
NoSt == [v |-> -1, c |-> "none", d |-> {}]
StampOf(r) == [v |-> r.v, c |-> r.c, d |-> {<<r.d[i][1], r.d[i][2]>> : i \in 1..Len(r.d)}]
Ex(iv, f) == iv[f] # NoV
Gd(iv, f) == Ex(iv, f) /\ iv[f] > 0
St(iv, cv, s) == IF ~Gd(iv, s) \/ (\E m \in ReachOf(iv, s) : ~Gd(iv, m)) THEN NoSt
                 ELSE [v |-> iv[s], c |-> MC_Eff[cv][s], d |-> {<<m, iv[m]>> : m \in ReachOf(iv, s)}]
ObsOK(r, iv, cv) ==
  /\ r.foreign_ok /\ Len(r.stray) = 0
  /\ \A s \in MC_Sources :
       /\ (Ex(iv, s) /\ St(iv, cv, s) # NoSt => StampOf(r.out[s]) = St(iv, cv, s))
       /\ (~Ex(iv, s) => StampOf(r.out[s]) = NoSt)
FreshAgrees(r, iv, cv) == \A s \in MC_Sources : StampOf(r.fresh[s]) = St(iv, cv, s)
Bad(kind) == PrintT("BAD " \o ToJson([id |-> hid, at |-> l, kind |-> kind]))

OInit == oi = [f \in Files2 |-> 1] /\ oc = Rows[1].c /\ l = 2 /\ hid = Rows[1].id /\ Rows[1].ev = "reset"
ONext ==
  /\ l <= Len(Rows) /\ l' = l + 1
  /\ LET r == Rows[l] IN
     CASE r.ev = "reset"  -> oi' = [f \in Files2 |-> 1] /\ oc' = r.c /\ hid' = r.id
       [] r.ev = "edit"   -> Ex(oi, r.f) /\ oi' = [oi EXCEPT ![r.f] = r.v] /\ UNCHANGED <<oc, hid>>
       [] r.ev = "add"    -> ~Ex(oi, r.f) /\ oi' = [oi EXCEPT ![r.f] = r.v] /\ UNCHANGED <<oc, hid>>
       [] r.ev = "rmfile" -> Ex(oi, r.f) /\ oi' = [oi EXCEPT ![r.f] = NoV] /\ UNCHANGED <<oc, hid>>
       [] r.ev = "rmdir"  -> oi' = [f \in Files2 |-> IF MC_DirOf[f] = r.d THEN NoV ELSE oi[f]] /\ UNCHANGED <<oc, hid>>
       [] r.ev = "config" -> oc' = r.c /\ UNCHANGED <<oi, hid>>
       [] r.ev = "process" -> /\ UNCHANGED <<oi, oc, hid>>
                              /\ (FreshAgrees(r, oi, oc) \/ Bad("fresh-mismatch"))
                              /\ (ObsOK(r, oi, oc) \/ Bad("observable"))
       [] r.ev = "panic"  -> UNCHANGED <<oi, oc, hid>> /\ Bad("panic")
       [] OTHER -> FALSE
OSpec == OInit /\ [][ONext]_ovars
Consumed == (l = Len(Rows) + 1) => PrintT("CONSUMED " \o ToJson([len |-> Len(Rows)]))
=============================================================================
