---------------------------- MODULE RenamerTrace ----------------------------
(* I->S for C09: the real rename_variables rule is judged ONLY by the property (Strategy "any"):    *)
(* for every program the harness records the identifier tokens of the output in textual order;      *)
(* event i of the program refers to token number t_i.  The reference resolver of Renamer.tla is     *)
(* replayed over the events with the recorded names: every use must resolve to the same declaration *)
(* as before, globals / fields / methods / self / kept function names are unchanged, and no local   *)
(* is renamed to a keyword, a listed global or a global the file uses.                              *)
EXTENDS Renamer, Json, IOUtils
Obs == ndJsonDeserialize(IOEnv.OBS)
VARIABLE i
W == 64
Init == i \in 1..(IF Len(Obs) < W THEN Len(Obs) ELSE W)
Next == i + W <= Len(Obs) /\ i' = i + W

\* globals the file uses: names used while no declaration is visible (reference resolver on the ORIGINAL names only)
RECURSIVE FileGlobals(_, _, _, _)
FileGlobals(evs, k, old, acc) ==
  IF k > Len(evs) THEN acc
  ELSE LET ev == evs[k] IN
       CASE ev.e = "push" -> FileGlobals(evs, k + 1, PushScope(old), acc)
         [] ev.e = "pop" -> FileGlobals(evs, k + 1, IF Len(old) > 1 THEN PopScope(old) ELSE old, acc)
         [] ev.e \in {"decl", "declfn", "self"} -> FileGlobals(evs, k + 1, Declare(old, ev.x, 1), acc)
         [] ev.e = "use" -> FileGlobals(evs, k + 1, old, IF Resolve(old, ev.x) = 0 THEN acc \cup {ev.x} ELSE acc)
         [] OTHER -> FileGlobals(evs, k + 1, old, acc)

RECURSIVE Replay(_, _, _, _, _, _)
Replay(evs, names, k, st, forbidden, kf) ==
  IF k > Len(evs) \/ ~st.ok THEN st
  ELSE LET ev == evs[k] IN
       LET y == IF ev.t = 0 THEN ev.x ELSE IF ev.t <= Len(names) THEN names[ev.t] ELSE "!missing" IN
       Replay(evs, names, k + 1, JudgeEvent(st, ev, y, forbidden, kf), forbidden, kf)

Listed(o) == {o.listed[k] : k \in 1..Len(o.listed)}
Judge(o) ==
  IF o.status # "ok" THEN [id |-> o.id, ok |-> FALSE, why |-> "rule failed: " \o o.status, renamed |-> 0]
  ELSE IF Len(o.names_out) # o.nids \/ Len(o.names_in) # o.nids
       THEN [id |-> o.id, ok |-> FALSE, why |-> "identifier count changed", renamed |-> 0]
  ELSE LET fg == FileGlobals(o.events, 1, <<<<>>>>, {}) IN
       LET st == Replay(o.events, o.names_out, 1, InitJudge, Listed(o) \cup fg, o.keep_functions) IN
       [id |-> o.id, ok |-> st.ok, why |-> st.why,
        renamed |-> Cardinality({k \in 1..o.nids : o.names_out[k] # o.names_in[k]})]
Emit == PrintT("VERDICT " \o ToJson(Judge(Obs[i])))
=============================================================================
